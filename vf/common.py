"""Shared runner machinery: sharded exhaustive exploration, evidence, replays, known findings."""
import hashlib
import json
import multiprocessing as mp
import os
import sys
import time
import traceback

ROOT = os.path.dirname(os.path.dirname(os.path.abspath(__file__)))
EVID = os.path.join(ROOT, "evidence")
REPLAYS = os.path.join(ROOT, "replays")
FINDINGS = os.path.join(ROOT, "known_findings.json")

RECURSION_LIMIT = 3000


def disable_expr_traces():
    """Every pyteal Expr constructor calls traceback.format_stack() (for error messages only); that is 80% of the
    cost of building a program.  The explorer replaces the *stdlib* function by a constant - no PyTeal code is
    touched and no property observes Expr.trace."""
    import traceback
    if os.environ.get("VERIF_KEEP_TRACES") == "1":
        return
    traceback.format_stack = lambda *a, **k: ["<definition trace disabled by /verif explorer>\n", ""]


def seed():
    try:
        return int(os.environ.get("VERIF_SEED", "0"))
    except ValueError:
        return 0


def ncpu():
    try:
        return max(1, int(os.environ.get("VERIF_JOBS", "0")) or len(os.sched_getaffinity(0)))
    except Exception:
        return os.cpu_count() or 1


def jsonable(o):
    """lossless JSON form: bytes -> {"__bytes__": hex}; dicts with non-str keys -> {"__items__": [[k, v]...]}"""
    if isinstance(o, bytes):
        return {"__bytes__": o.hex()}
    if isinstance(o, (str, int, float, bool)) or o is None:
        return o
    if isinstance(o, dict):
        if all(isinstance(k, str) for k in o):
            return {k: jsonable(v) for k, v in o.items()}
        return {"__items__": [[jsonable(k), jsonable(v)] for k, v in o.items()]}
    if isinstance(o, (list, tuple)):
        return [jsonable(x) for x in o]
    if isinstance(o, (set, frozenset)):
        return [jsonable(x) for x in sorted(o, key=repr)]
    return repr(o)


def jdump(o, **kw):
    return json.dumps(jsonable(o), **kw)


def _unjson(o):
    if isinstance(o, dict):
        if len(o) == 1 and "__bytes__" in o:
            return bytes.fromhex(o["__bytes__"])
        if len(o) == 1 and "__items__" in o:
            return {_hashable(_unjson(k)): _unjson(v) for k, v in o["__items__"]}
        return {k: _unjson(v) for k, v in o.items()}
    if isinstance(o, list):
        return [_unjson(x) for x in o]
    return o


def _hashable(k):
    return tuple(k) if isinstance(k, list) else k


def jloads(s):
    return _unjson(json.loads(s))


# ------------------------------------------------------------------ parallel map
_WORK_FN = None
_WORK_ITEMS = None


def _init_worker(lim):
    import gc
    sys.setrecursionlimit(lim)
    gc.set_threshold(int(os.environ.get("VERIF_GC0", "20000")), 20, 50)


def _run_shard(idx_range):
    lo, hi = idx_range
    try:
        return ("ok", _WORK_FN(_WORK_ITEMS[lo:hi], lo))
    except BaseException:
        return ("err", "shard %d..%d crashed:\n%s" % (lo, hi, traceback.format_exc()))


def pmap_shards(fn, items, shard_size=None, jobs=None, recursion_limit=RECURSION_LIMIT, order_seed=0):
    """Run fn(list_of_items, base_index) over shards of items in forked workers.

    The set of shards covers every item exactly once (exhaustive); order_seed only
    permutes the order in which shards are handed out.  Returns list of results.
    A crash of the machinery in any shard raises (exit 2 upstream), never a VIOLATION.
    """
    global _WORK_FN, _WORK_ITEMS
    items = list(items)
    n = len(items)
    jobs = jobs or ncpu()
    if shard_size is None:
        shard_size = max(1, min(2000, (n + jobs * 8 - 1) // (jobs * 8)))
    ranges = [(lo, min(n, lo + shard_size)) for lo in range(0, n, shard_size)]
    if order_seed:
        import random
        random.Random(order_seed).shuffle(ranges)
    _WORK_FN, _WORK_ITEMS = fn, items
    out = []
    if jobs == 1 or n <= shard_size:
        sys.setrecursionlimit(max(sys.getrecursionlimit(), recursion_limit))
        for r in ranges:
            k, v = _run_shard(r)
            if k == "err":
                raise MachineryError(v)
            out.append(v)
        return out
    ctx = mp.get_context("fork")
    import gc
    gc.collect()
    gc.freeze()  # keep the parent's heap out of the children's collections (no COW storms)
    with ctx.Pool(jobs, initializer=_init_worker, initargs=(recursion_limit,)) as pool:
        for k, v in pool.imap_unordered(_run_shard, ranges):
            if k == "err":
                pool.terminate()
                raise MachineryError(v)
            out.append(v)
    return out


class MachineryError(Exception):
    pass


# ------------------------------------------------------------------ report
class Report:
    """Collects counters, violations, samples; writes evidence; decides exit code."""

    def __init__(self, pid, tier):
        self.pid = pid
        self.tier = tier
        self.seed = seed()
        self.t0 = time.time()
        self.counters = {}
        self.violations = []  # dict cases
        self.samples = []
        self.outcomes = {}
        self.caps = []
        self.assumptions = []
        self.bounds = {}
        self.notes = []
        self.rule = ""

    def add(self, key, n=1):
        self.counters[key] = self.counters.get(key, 0) + n

    def merge(self, shard):
        """shard: dict(counters=..., violations=[...], outcomes=..., samples=[...])"""
        for k, v in shard.get("counters", {}).items():
            self.add(k, v)
        for k, v in shard.get("outcomes", {}).items():
            self.outcomes[k] = self.outcomes.get(k, 0) + v
        self.violations.extend(shard.get("violations", []))
        for s in shard.get("samples", []):
            if len(self.samples) < 6:
                self.samples.append(s)

    def cap(self, text):
        self.caps.append(text)

    # ---- finishing
    def finish(self, level="model_checking"):
        findings = load_findings()
        known_hit = {}
        fresh = []
        for v in self.violations:
            f = match_finding(findings, self.pid, v)
            if f is not None:
                known_hit.setdefault(f["id"], [f, 0])[1] += 1
            else:
                fresh.append(v)
        fresh.sort(key=lambda v: (v.get("size", 0), len(jdump(v))))
        os.makedirs(REPLAYS, exist_ok=True)
        os.makedirs(EVID, exist_ok=True)
        for fid, (f, cnt) in sorted(known_hit.items()):
            print("KNOWN-FINDING: property=%s %s [%s; %d case(s) in this run]" % (self.pid, f["title"], fid, cnt))
        paths = []
        for v in fresh[:20]:
            h = hashlib.sha1(jdump(v, sort_keys=True).encode()).hexdigest()[:12]
            path = os.path.join(REPLAYS, "%s-%s.json" % (self.pid, h))
            v = dict(v)
            v["property"] = self.pid
            with open(path, "w") as fh:
                fh.write(jdump(v, indent=1))
            paths.append(path)
            print("VIOLATION property=%s replay=%s" % (self.pid, os.path.relpath(path, ROOT)))
            if v.get("title"):
                print("   ", v["title"])
        c = self.counters
        states = int(c.get("states", 0))
        cov = {
            "states": states,
            "transitions": int(c.get("transitions", states)),
            "traces_validated_against_impl": int(c.get("traces_validated", 0)),
            "evaluations": int(c.get("evaluations", c.get("traces_validated", states))),
            "distinct_nontrivial": int(c.get("distinct_nontrivial", states)),
            "rule": self.rule,
            "samples": self.samples[:6] or [{"note": "no sample recorded"}],
            "exhaustive": not self.caps,
            "caps": self.caps,
            "bounds": self.bounds,
            "counters": {k: v for k, v in sorted(c.items())},
            "distinct_outcomes": {k: v for k, v in sorted(self.outcomes.items())},
            "known_findings_hit": {k: v[1] for k, v in known_hit.items()},
            "notes": self.notes,
        }
        ev = {
            "property_id": self.pid,
            "tier": self.tier,
            "seed": self.seed,
            "level": level,
            "coverage": cov,
            "assumptions": self.assumptions,
            "wall_s": round(time.time() - self.t0, 2),
            "violations": len(fresh),
        }
        with open(os.path.join(EVID, "%s.json" % self.pid), "w") as fh:
            fh.write(jdump(ev, indent=1))
        print("%s %s: states=%d transitions=%d validated=%d violations=%d known=%d wall=%.1fs" % (
            self.pid, self.tier, cov["states"], cov["transitions"], cov["traces_validated_against_impl"],
            len(fresh), sum(v[1] for v in known_hit.values()), ev["wall_s"]))
        return 1 if fresh else 0


def load_findings():
    if not os.path.exists(FINDINGS):
        return []
    with open(FINDINGS) as fh:
        data = json.load(fh)
    return [f for f in data.get("findings", []) if f.get("status") == "open"]


def match_finding(findings, pid, v):
    """A violation matches an open finding iff every feature named by the
    finding's `match` has exactly the listed value in the violation's `features`."""
    feats = v.get("features", {})
    for f in findings:
        if f["property"] != pid:
            continue
        m = f.get("match", {})
        if m and all(feats.get(k) == val for k, val in m.items()):
            return f
    return None


def merge_counts(dst, src):
    for k, v in src.items():
        dst[k] = dst.get(k, 0) + v
