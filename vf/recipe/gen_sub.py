"""Call-graph recipes (driver of C02; reused by C03/C05/C20).

Families (all combinations inside each family are enumerated):
  F1 self-recursion: arity 1..3 x locals 0..3 x recursive-call position x return type
  F2 mutual recursion A<->B with different arities and return types
  F3 by-reference parameters (one and two levels)
  F4 Return at each syntactic position of the body
  F5 call sites: statement / left / right operand with a live sibling / argument of another call
Yields (size, program, inputs).
"""
import itertools

N = ["Btoi", ["Arg", 0]]


def _inputs(ns=(0, 1, 2, 3, 4)):
    return [{"args": [bytes([n]), bytes([m])]} for n in ns for m in (0, 5)]


def L(v):
    return ["Load", v]


def I(n):
    return ["Int", n]


def prog(main, subs, vars_=None):
    return {"mode": "A", "vars": dict(vars_ or {}), "subs": subs, "main": main}


# ---------------------------------------------------------------- F1
def f1(arity, nlocals, pos, ret):
    """f(n, p1.., ) recursion on n-1; locals hold n+i and must survive the recursive call"""
    params = [["n", "val"]] + [["p%d" % i, "val"] for i in range(1, arity)]
    locs = ["l%d" % i for i in range(nlocals)]
    extra = [L("p%d" % i) for i in range(1, arity)]
    base = I(1)
    for e in extra:
        base = ["Add", base, e]
    rec = ["Call", "f", ["Minus", L("n"), I(1)]] + extra
    rec2 = ["Call", "f", ["Minus", L("n"), I(2)]] + extra
    stores = [["Store", l, ["Add", ["Mul", L("n"), I(10)], I(i + 1)]] for i, l in enumerate(locs)]
    locsum = I(0)
    for l in locs:
        locsum = ["Add", locsum, L(l)]
    if ret == "b":
        base = ["Itob", base]
        wrap = lambda e: ["Itob", e]
        unwrap = lambda e: ["Btoi", e]
    else:
        wrap = lambda e: e
        unwrap = lambda e: e
    if pos == "left":
        comb = ["Add", unwrap(rec), locsum]
        guard = ["Eq", L("n"), I(0)]
    elif pos == "right":
        comb = ["Add", locsum, unwrap(rec)]
        guard = ["Eq", L("n"), I(0)]
    elif pos == "both":
        comb = ["Add", ["Add", unwrap(rec), unwrap(rec2)], locsum]
        guard = ["Lt", L("n"), I(2)]
    elif pos == "stored":
        # result stored into a local first, then combined
        comb = None
        guard = ["Eq", L("n"), I(0)]
    elif pos == "arg":
        # the recursive call is an argument of an outer call
        comb = ["Add", unwrap(["Call", "f", ["Minus", L("n"), I(1)]] + extra[:0] + extra), locsum]
        guard = ["Eq", L("n"), I(0)]
    body = ["Seq"] + stores + [["If", guard, ["Return", base]]]
    if pos == "stored":
        locs = locs + ["r"]
        body += [["Store", "r", unwrap(rec)], ["Return", wrap(["Add", L("r"), locsum])]]
    else:
        body += [["Return", wrap(comb)]]
    sub = {"params": params, "ret": ret, "body": body, "locals": locs, "init_locals": False}
    call = ["Call", "f", N] + [I(7 + i) for i in range(1, arity)]
    main = ["Seq", ["GPut", ["Bytes", "72"], call], ["TickS", 1], ["Int", 1]]
    return prog(main, {"f": sub})


# ---------------------------------------------------------------- F2
def f2(reta, retb, la, lb):
    """A(n) and B(m, x) call each other; different arities and return types"""
    def val(ret, e):
        return ["Itob", e] if ret == "b" else e

    def use(ret, call):
        if ret == "none":
            return None
        return ["Btoi", call] if ret == "b" else call
    locs_a = ["a%d" % i for i in range(la)]
    locs_b = ["b%d" % i for i in range(lb)]
    st_a = [["Store", l, ["Add", ["Mul", L("n"), I(10)], I(i + 1)]] for i, l in enumerate(locs_a)]
    st_b = [["Store", l, ["Add", ["Mul", L("m"), I(100)], ["Add", L("x"), I(i)]]] for i, l in enumerate(locs_b)]
    sum_a = I(1000)
    for l in locs_a:
        sum_a = ["Add", sum_a, L(l)]
    sum_b = L("x")
    for l in locs_b:
        sum_b = ["Add", sum_b, L(l)]
    call_b = ["Call", "B", ["Minus", L("n"), I(1)], I(3)]
    call_a = ["Call", "A", ["Minus", L("m"), I(1)]]
    ub = use(retb, call_b)
    ua = use(reta, call_a)
    body_a = ["Seq"] + st_a + [["If", ["Eq", L("n"), I(0)], ["Return"] + ([val(reta, I(1))] if reta != "none" else [])]]
    if ub is None:
        body_a += [call_b, ["TickS", 2]]
        res_a = sum_a
    else:
        res_a = ["Minus", sum_a, ub]
    if reta == "none":
        body_a += [["GPut", ["Bytes", "61"], res_a], ["Return"]]
    else:
        body_a += [["Return", val(reta, res_a)]]
    body_b = ["Seq"] + st_b + [["If", ["Eq", L("m"), I(0)], ["Return"] + ([val(retb, I(2))] if retb != "none" else [])]]
    if ua is None:
        body_b += [call_a, ["TickS", 3]]
        res_b = sum_b
    else:
        res_b = ["Add", sum_b, ua]
    if retb == "none":
        body_b += [["GPut", ["Bytes", "62"], res_b], ["Return"]]
    else:
        body_b += [["Return", val(retb, res_b)]]
    subs = {
        "A": {"params": [["n", "val"]], "ret": reta, "body": body_a, "locals": locs_a, "init_locals": False},
        "B": {"params": [["m", "val"], ["x", "val"]], "ret": retb, "body": body_b, "locals": locs_b, "init_locals": False},
    }
    top = ["Call", "A", N]
    if reta == "none":
        main = ["Seq", top, ["TickS", 1], ["Int", 1]]
    else:
        main = ["Seq", ["GPut", ["Bytes", "72"], top], ["TickS", 1], ["Int", 1]]
    return prog(main, subs)


# ---------------------------------------------------------------- F3
def f3(levels, ret, nlocals):
    locs = ["l%d" % i for i in range(nlocals)]
    st = [["Store", l, I(40 + i)] for i, l in enumerate(locs)]
    locsum = I(0)
    for l in locs:
        locsum = ["Add", locsum, L(l)]
    g_body = ["Seq"] + st + [["Store", "v", ["Add", ["Add", L("v"), L("k")], locsum]]]
    if ret == "u":
        g_body.append(["Return", ["Mul", L("v"), I(2)]])
    g = {"params": [["v", "ref"], ["k", "val"]], "ret": ret, "body": g_body, "locals": locs, "init_locals": False}
    subs = {"g": g}
    callee = "g"
    if levels == 2:
        h_body = ["Seq", ["Store", "w", ["Add", L("w"), I(100)]]]
        inner = ["Call", "g", ["Ref", "w"], ["Add", L("j"), I(1)]]
        if ret == "u":
            h_body.append(["Return", ["Add", inner, L("w")]])
        else:
            h_body += [inner, ["Store", "w", ["Add", L("w"), I(1000)]]]
        subs["h"] = {"params": [["w", "ref"], ["j", "val"]], "ret": ret, "body": h_body, "locals": [], "init_locals": False}
        callee = "h"
    call = ["Call", callee, ["Ref", "x"], N]
    main = ["Seq", ["Store", "x", I(1)], ["Store", "y", I(9)]]
    if ret == "u":
        main += [["GPut", ["Bytes", "72"], ["Minus", ["Add", call, I(5000)], L("y")]]]
    else:
        main += [call]
    main += [["GPut", ["Bytes", "78"], L("x")], ["GPut", ["Bytes", "79"], L("y")], ["Int", 1]]
    return prog(main, subs, {"x": "u", "y": "u"})


# ---------------------------------------------------------------- F4
def f4(position, ret, nlocals):
    locs = ["l%d" % i for i in range(nlocals)]
    st = [["Store", l, ["Add", L("n"), I(i + 1)]] for i, l in enumerate(locs)]
    rv = (lambda e: ["Itob", e]) if ret == "b" else (lambda e: e)
    R = (lambda e: ["Return", rv(e)]) if ret != "none" else (lambda e: ["Seq", ["GPut", ["Bytes", "71"], e], ["Return"]])
    last = R(["Add", L("n"), I(100)])
    if position == "first":
        body = ["Seq", R(L("n"))]
    elif position == "in_if":
        body = ["Seq"] + st + [["If", ["Eq", L("n"), I(1)], R(I(11))], ["TickS", 2], last]
    elif position == "in_ifelse":
        body = ["Seq"] + st + [["If", ["Eq", L("n"), I(1)], R(I(11)), R(I(12))]]
    elif position == "in_loop":
        body = ["Seq"] + st + [["Store", "c", I(0)],
                               ["While", ["Lt", L("c"), I(5)],
                                ["Seq", ["If", ["Eq", L("c"), L("n")], R(["Add", L("c"), I(50)])],
                                 ["Store", "c", ["Add", L("c"), I(1)]]]],
                               ["TickS", 2], last]
        locs = locs + ["c"]
    elif position == "in_for":
        body = ["Seq"] + st + [["For", ["Store", "c", I(0)], ["Lt", L("c"), I(3)], ["Store", "c", ["Add", L("c"), I(1)]],
                                ["Seq", ["If", ["Eq", L("c"), L("n")], R(["Add", L("c"), I(60)])], ["TickS", 4]]],
                               last]
        locs = locs + ["c"]
    elif position == "in_cond":
        body = ["Seq"] + st + [["Cond", [[["Eq", L("n"), I(0)], R(I(20))], [["Eq", L("n"), I(1)], ["TickS", 5]],
                                         [I(1), R(I(22))]]], last]
    elif position == "last":
        body = ["Seq"] + st + [["TickS", 2], last]
    sub = {"params": [["n", "val"]], "ret": ret, "body": body, "locals": locs, "init_locals": False}
    call = ["Call", "f", N]
    if ret == "none":
        main = ["Seq", ["TickS", 6], call, ["TickS", 7], ["Int", 1]]
    elif ret == "b":
        main = ["Seq", ["GPut", ["Bytes", "72"], ["Concat", ["Seq", ["TickS", 6], ["Bytes", "41"]], call]], ["Int", 1]]
    else:
        main = ["Seq", ["GPut", ["Bytes", "72"], ["Minus", ["Tick", 6, 1000], call]], ["Int", 1]]
    return prog(main, {"f": sub})


# ---------------------------------------------------------------- F5
def f5(site):
    sq = {"params": [["x", "val"]], "ret": "u", "body": ["Seq", ["TickS", 5], ["Return", ["Mul", L("x"), L("x")]]],
          "locals": [], "init_locals": False}
    dbl = {"params": [["b", "val"]], "ret": "b", "body": ["Return", ["Concat", L("b"), L("b")]], "locals": [],
           "init_locals": False}
    sub2 = {"params": [["a", "val"], ["b", "val"]], "ret": "u", "body": ["Return", ["Minus", L("a"), L("b")]],
            "locals": [], "init_locals": False}
    nop = {"params": [], "ret": "none", "body": ["Seq", ["TickS", 4]], "locals": [], "init_locals": False}
    three = {"params": [["a", "val"], ["b", "val"], ["c", "val"]], "ret": "u",
             "body": ["Return", ["Add", ["Mul", L("a"), I(100)], ["Add", ["Mul", L("b"), I(10)], L("c")]]],
             "locals": [], "init_locals": False}
    subs = {"sq": sq, "dbl": dbl, "sub2": sub2, "nop": nop, "three": three}
    c = ["Call", "sq", N]
    sites = {
        "stmt": ["Seq", ["Pop", c], ["Call", "nop"], ["Int", 1]],
        "left": ["Seq", ["GPut", ["Bytes", "72"], ["Minus", ["Add", c, I(100)], ["Tick", 1, 7]]], ["Int", 1]],
        "right": ["Seq", ["GPut", ["Bytes", "72"], ["Minus", ["Tick", 1, 100], c]], ["Int", 1]],
        "nested_arg": ["Seq", ["GPut", ["Bytes", "72"], ["Call", "sq", ["Call", "sq", N]]], ["Int", 1]],
        "arg_order": ["Seq", ["GPut", ["Bytes", "72"], ["Call", "sub2", ["Tick", 1, 50], ["Tick", 2, 8]]], ["Int", 1]],
        "arg_order3": ["Seq", ["GPut", ["Bytes", "72"], ["Call", "three", ["Tick", 1, 1], ["Tick", 2, 2], ["Tick", 3, 3]]], ["Int", 1]],
        "bytes_left": ["Seq", ["GPut", ["Bytes", "72"], ["Concat", ["Call", "dbl", ["Arg", 1]], ["Seq", ["TickS", 1], ["Bytes", "21"]]]], ["Int", 1]],
        "bytes_right": ["Seq", ["GPut", ["Bytes", "72"], ["Concat", ["Seq", ["TickS", 1], ["Bytes", "21"]], ["Call", "dbl", ["Arg", 1]]]], ["Int", 1]],
        "two_calls": ["Seq", ["GPut", ["Bytes", "72"], ["Call", "sub2", ["Call", "sq", I(9)], ["Call", "sq", N]]], ["Int", 1]],
        "in_cond": ["Seq", ["If", ["Call", "sq", N], ["TickS", 1], ["TickS", 2]], ["Int", 1]],
        "in_loop": ["Seq", ["Store", "i", I(0)], ["While", ["Lt", ["Call", "sq", L("i")], I(10)],
                                                ["Seq", ["Call", "nop"], ["Store", "i", ["Add", L("i"), I(1)]]]], L("i")],
        "value_top": ["Call", "sq", ["Add", N, I(1)]],
    }
    return prog(sites[site], subs, {"i": "u"})


# ---------------------------------------------------------------- F7
def f7(order, nlocals, retw):
    """one caller makes TWO re-entrant calls of different return shapes: walk() -> value and note() -> none
    (note calls walk back), in either order; walk's locals must survive both"""
    locs = ["l%d" % i for i in range(nlocals)]
    st = [["Store", l, ["Add", ["Mul", L("n"), I(10)], I(i + 1)]] for i, l in enumerate(locs)]
    locsum = I(0)
    for l in locs:
        locsum = ["Add", locsum, L(l)]
    rv = (lambda e: ["Itob", e]) if retw == "b" else (lambda e: e)
    un = (lambda e: ["Btoi", e]) if retw == "b" else (lambda e: e)
    call_walk = ["Store", "r", un(["Call", "walk", ["Minus", L("n"), I(1)]])]
    call_note = ["Call", "note", ["Minus", L("n"), I(1)]]
    calls = [call_walk, call_note] if order == "value_first" else [call_note, call_walk]
    body = ["Seq"] + st + [["If", ["Eq", L("n"), I(0)], ["Return", rv(I(1))]]] + calls + \
        [["Return", rv(["Add", L("r"), locsum])]]
    walk = {"params": [["n", "val"]], "ret": retw, "body": body, "locals": locs + ["r"], "init_locals": False}
    note_body = ["Seq", ["If", ["Eq", L("m"), I(0)], ["Return"]],
                 ["GPut", ["Bytes", "62"], un(["Call", "walk", ["Minus", L("m"), I(1)]])], ["Return"]]
    note = {"params": [["m", "val"]], "ret": "none", "body": note_body, "locals": [], "init_locals": False}
    main = ["Seq", ["GPut", ["Bytes", "72"], ["Call", "walk", N]], ["TickS", 1], ["Int", 1]]
    return prog(main, {"walk": walk, "note": note})


# ---------------------------------------------------------------- F8
def f8(k, keep, mixed):
    """a ring of k mutually recursive subroutines s0 -> s1 -> ... -> s(k-1) -> s0; every routine keeps its
    parameter (keep='param') or a local variable (keep='local') alive across the call; with mixed=True the
    routines alternate between one and two parameters"""
    subs = {}
    for i in range(k):
        nxt = "s%d" % ((i + 1) % k)
        two = mixed and i % 2 == 1
        nxt_two = mixed and ((i + 1) % k) % 2 == 1
        params = [["n", "val"]] + ([["x", "val"]] if two else [])
        call = ["Call", nxt, ["Minus", L("n"), I(1)]] + ([I(3 + i)] if nxt_two else [])
        kept = L("n") if keep == "param" else L("v")
        extra = ["Add", kept, L("x")] if two else kept
        body = ["Seq"]
        if keep == "local":
            body.append(["Store", "v", ["Add", ["Mul", L("n"), I(10)], I(i + 1)]])
        body += [["If", ["Eq", L("n"), I(0)], ["Return", I(i + 1)]],
                 ["Return", ["Add", ["Mul", call, I(3)], extra]]]
        subs["s%d" % i] = {"params": params, "ret": "u", "body": body, "locals": ["v"] if keep == "local" else [],
                           "init_locals": False}
    main = ["Seq", ["GPut", ["Bytes", "72"], ["Call", "s0", N]], ["TickS", 1], ["Int", 1]]
    return prog(main, subs)


# ---------------------------------------------------------------- F9
def f9(style, when, nlocals):
    """a RECURSIVE routine whose local variable is handed out by reference and kept alive across the recursive call:
    style 'helper' - the local goes by reference to a non-recursive helper that adds to it;
    style 'self'   - the routine takes a by-reference parameter itself and passes its OWN local down the recursion
    (every activation must see its own copy afterwards); when: the hand-out happens before / after the recursion"""
    locs = ["l%d" % i for i in range(nlocals)]
    st = [["Store", l, ["Add", ["Mul", L("n"), I(7)], I(i + 1)]] for i, l in enumerate(locs)]
    locsum = I(0)
    for l in locs:
        locsum = ["Add", locsum, L(l)]
    subs = {}
    if style == "helper":
        subs["bump"] = {"params": [["w", "ref"], ["j", "val"]], "ret": "none",
                        "body": ["Seq", ["Store", "w", ["Add", L("w"), ["Add", L("j"), I(100)]]]], "locals": [], "init_locals": False}
        hand = ["Call", "bump", ["Ref", "t"], L("n")]
        rec = ["Store", "r", ["Call", "walk", ["Minus", L("n"), I(1)]]]
        steps = [hand, rec] if when == "before" else [rec, hand]
        body = ["Seq", ["Store", "t", ["Mul", L("n"), I(10)]]] + st + \
            [["If", ["Eq", L("n"), I(0)], ["Return", I(1)]]] + steps + \
            [["Return", ["Add", ["Add", ["Mul", L("r"), I(3)], L("t")], locsum]]]
        subs["walk"] = {"params": [["n", "val"]], "ret": "u", "body": body, "locals": ["t", "r"] + locs, "init_locals": False}
        main = ["Seq", ["GPut", ["Bytes", "72"], ["Call", "walk", N]], ["TickS", 1], ["Int", 1]]
        return prog(main, subs)
    rec = ["Store", "r", ["Call", "walk", ["Ref", "t"], ["Minus", L("n"), I(1)]]]
    touch = ["Store", "v", ["Add", L("v"), ["Add", L("n"), I(100)]]]
    steps = [touch, rec] if when == "before" else [rec, touch]
    body = ["Seq", ["Store", "t", ["Mul", L("n"), I(10)]]] + st + \
        [["If", ["Eq", L("n"), I(0)], ["Seq", touch, ["Return", I(1)]]]] + steps + \
        [["Return", ["Add", ["Add", ["Mul", L("r"), I(3)], L("t")], locsum]]]
    subs["walk"] = {"params": [["v", "ref"], ["n", "val"]], "ret": "u", "body": body, "locals": ["t", "r"] + locs, "init_locals": False}
    main = ["Seq", ["Store", "x", I(5)], ["GPut", ["Bytes", "72"], ["Call", "walk", ["Ref", "x"], N]],
            ["GPut", ["Bytes", "78"], L("x")], ["Int", 1]]
    return prog(main, subs, {"x": "u"})


# ---------------------------------------------------------------- F10
def call_graph(k, main_mask, edge_mask, order):
    """k subroutines g0..g(k-1) DEFINED in the order `order`; the main routine calls those in main_mask (bit i), in
    ascending order; routine gi calls gj for every set bit i*k+j of edge_mask (i != j), each on n-1 (so every chain
    of calls ends); every routine adds its own weight"""
    subs = {}
    defs = {}
    for i in range(k):
        total = ["Mul", L("n"), I(i + 2)]
        for j in range(k):
            if i != j and edge_mask >> (i * k + j) & 1:
                total = ["Add", total, ["Call", "g%d" % j, ["Minus", L("n"), I(1)]]]
        body = ["Seq", ["If", ["Eq", L("n"), I(0)], ["Return", I(i + 1)]], ["Return", total]]
        defs["g%d" % i] = {"params": [["n", "val"]], "ret": "u", "body": body, "locals": [], "init_locals": False}
    for i in order:
        subs["g%d" % i] = defs["g%d" % i]
    tot = I(7)
    for i in range(k):
        if main_mask >> i & 1:
            tot = ["Add", tot, ["Call", "g%d" % i, N]]
    main = ["Seq", ["GPut", ["Bytes", "72"], tot], ["Int", 1]]
    return prog(main, subs)


def call_graphs(k, orders="all"):
    """every call graph over k routines (main's callees x every set of edges between different routines) x the
    definition orders; graphs in which some routine is unreachable from main are left out (never built)"""
    import itertools as it
    out = []
    perms = list(it.permutations(range(k))) if orders == "all" else [tuple(range(k)), tuple(reversed(range(k)))]
    for main_mask in range(1, 1 << k):
        for edge_mask in range(1 << (k * k)):
            if any(edge_mask >> (i * k + i) & 1 for i in range(k)):
                continue
            reach = set(i for i in range(k) if main_mask >> i & 1)
            todo = list(reach)
            while todo:
                i = todo.pop()
                for j in range(k):
                    if i != j and edge_mask >> (i * k + j) & 1 and j not in reach:
                        reach.add(j)
                        todo.append(j)
            if len(reach) != k:
                continue
            for order in perms:
                out.append((k, main_mask, edge_mask, order))
    return out


# ---------------------------------------------------------------- F11
def f11(where, caller, callee):
    """a by-reference call that sits in a NON-ENTRY block of its caller (conditional arm, loop body), the variable
    handed over being written and read back just once before (store directly followed by its only direct load)"""
    if callee == "read":
        g_body = ["Seq", ["Return", ["Add", ["Mul", L("v"), I(10)], L("k")]]]
    else:
        g_body = ["Seq", ["Store", "v", ["Add", ["Mul", L("v"), I(2)], L("k")]], ["Return", ["Add", L("v"), I(1)]]]
    g = {"params": [["v", "ref"], ["k", "val"]], "ret": "u", "body": g_body, "locals": [], "init_locals": False}
    var = "x" if caller == "main" else "t"
    n = N if caller == "main" else L("n")
    call = ["Call", "g", ["Ref", var], n]
    out_ = (lambda e: ["GPut", ["Bytes", "72"], e]) if caller == "main" else (lambda e: ["Return", e])
    guard = ["Gt", L(var), I(3)]
    if where == "if":
        steps = [["Store", var, ["Add", n, I(5)]], ["If", guard, ["Seq", out_(call)]]]
    elif where == "else":
        steps = [["Store", var, ["Add", n, I(5)]], ["If", ["Lt", L(var), I(3)], ["Seq", ["TickS", 1]], ["Seq", out_(call)]]]
    else:
        steps = [["Store", "c", I(0)], ["Store", var, ["Add", n, I(5)]],
                 ["While", ["Lt", L("c"), I(2)], ["Seq", ["Store", "c", ["Add", L("c"), I(1)]],
                                                 ["GPut", ["Bytes", "72"], call] if caller == "main" else ["GPut", ["Bytes", "75"], call]]]]
    if caller == "main":
        main = ["Seq"] + steps + [["TickS", 2], ["Int", 1]]
        return prog(main, {"g": g}, {"x": "u", "c": "u"})
    h = {"params": [["n", "val"]], "ret": "u", "body": ["Seq"] + steps + [["Return", I(0)]], "locals": ["t", "c"], "init_locals": False}
    main = ["Seq", ["GPut", ["Bytes", "72"], ["Add", I(40), ["Call", "h", N]]], ["TickS", 2], ["Int", 1]]
    return prog(main, {"g": g, "h": h})


F5_SITES = ["stmt", "left", "right", "nested_arg", "arg_order", "arg_order3", "bytes_left", "bytes_right", "two_calls",
            "in_cond", "in_loop", "value_top"]
F4_POS = ["first", "in_if", "in_ifelse", "in_loop", "in_for", "in_cond", "last"]


def programs(tier="quick"):
    out = []
    ins = _inputs()
    small = _inputs((0, 1, 3))
    max_ar = 2 if tier == "quick" else 3
    max_loc = 2 if tier == "quick" else 3
    for arity in range(1, max_ar + 1):
        for nl in range(0, max_loc + 1):
            for pos in ("left", "right", "both", "stored"):
                for ret in ("u", "b"):
                    out.append((arity + nl, f1(arity, nl, pos, ret), ins))
    for reta, retb in itertools.product(("u", "none", "b"), repeat=2):
        for la in range(0, max_loc + 1):
            for lb in range(0, max_loc + 1):
                out.append((2 + la + lb, f2(reta, retb, la, lb), ins))
    for levels in (1, 2):
        for ret in ("none", "u"):
            for nl in range(0, max_loc + 1):
                out.append((levels + nl, f3(levels, ret, nl), small))
    for posn in F4_POS:
        for ret in ("u", "b", "none"):
            for nl in (0, 1, 2):
                out.append((1 + nl, f4(posn, ret, nl), ins))
    for site in F5_SITES:
        out.append((1, f5(site), small))
    for order in ("value_first", "none_first"):
        for nl in range(0, max_loc + 1):
            for retw in ("u", "b"):
                out.append((3 + nl, f7(order, nl, retw), _inputs((0, 1, 2, 3))))
    for k in range(1, 7 if tier == "quick" else 9):
        for keep in ("param", "local"):
            for mixed in (False, True):
                out.append((k, f8(k, keep, mixed), [{"args": [bytes([n]), b"\x00"]} for n in (0, 1, k, k + 1, 2 * k + 1)]))
    for where in ("if", "else", "loop"):
        for caller in ("main", "sub"):
            for callee in ("read", "rmw"):
                out.append((3, f11(where, caller, callee), _inputs((0, 1, 2, 3))))
    # (style 'self' - the recursive routine itself takes the by-reference parameter - is refused by PyTeal
    # ("ScratchVar arguments not allowed in recursive subroutines"): not a member of the population)
    for style in ("helper",):
        for when in ("before", "after"):
            for nl in range(0, max_loc + 1):
                out.append((3 + nl, f9(style, when, nl), _inputs((0, 1, 2, 3))))
    return out
