"""F6 of C02: ABIReturnSubroutine / ABI-typed parameters.  These cannot be expressed in the
generic term language (results are delivered through `output.set`), so each template has a
hand-written PyTeal builder and a hand-written Python reference, both small.
A case is the JSON dict `native` = {"kind": ..., parameters...}.
"""
import pyteal as pt
from pyteal import abi

from . import build as rb
from .. import drive

M64 = (1 << 64) - 1


def _arg_n():
    return pt.Btoi(pt.Txn.application_args[0])


def build_native(nat):
    k = nat["kind"]
    nl = nat.get("locals", 0)
    if k == "abi_fact":
        @pt.ABIReturnSubroutine
        def fact(n: abi.Uint64, *, output: abi.Uint64) -> pt.Expr:
            locs = [pt.ScratchVar(pt.TealType.uint64) for _ in range(nl)]
            tmp = abi.Uint64()
            r = abi.Uint64()
            tot = pt.Int(0)
            for l in locs:
                tot = tot + l.load()
            return pt.Seq(
                *[l.store(n.get() * pt.Int(10) + pt.Int(i + 1)) for i, l in enumerate(locs)],
                pt.If(n.get() <= pt.Int(1)).Then(output.set(pt.Int(1))).Else(
                    pt.Seq(tmp.set(n.get() - pt.Int(1)), r.set(fact(tmp)), output.set(n.get() * r.get() + tot))),
            )
        n = abi.Uint64()
        res = abi.Uint64()
        return pt.Seq(n.set(_arg_n()), res.set(fact(n)), pt.App.globalPut(pt.Bytes("r"), res.get()), pt.Int(1))
    if k == "abi_fib":
        @pt.ABIReturnSubroutine
        def fib(n: abi.Uint64, *, output: abi.Uint64) -> pt.Expr:
            a = abi.Uint64()
            b = abi.Uint64()
            ra = abi.Uint64()
            rb_ = abi.Uint64()
            return pt.If(n.get() <= pt.Int(1)).Then(output.set(n.get())).Else(pt.Seq(
                a.set(n.get() - pt.Int(1)), b.set(n.get() - pt.Int(2)), ra.set(fib(a)), rb_.set(fib(b)),
                output.set(ra.get() + rb_.get())))
        n = abi.Uint64()
        res = abi.Uint64()
        return pt.Seq(n.set(_arg_n()), res.set(fib(n)), pt.App.globalPut(pt.Bytes("r"), res.get()), pt.Int(1))
    if k == "abi_mutual":
        # A is an ABI-returning routine, B a plain subroutine returning none / uint64; they call each other
        retb = nat.get("retb", "none")
        holder = {}

        @pt.ABIReturnSubroutine
        def A(n: abi.Uint64, *, output: abi.Uint64) -> pt.Expr:
            loc = pt.ScratchVar(pt.TealType.uint64)
            call_b = holder["B"](n.get() - pt.Int(1), pt.Int(3))
            return pt.Seq(
                loc.store(n.get() * pt.Int(10) + pt.Int(7)),
                pt.If(n.get() == pt.Int(0)).Then(output.set(pt.Int(1))).Else(
                    pt.Seq(call_b, output.set(loc.load() + pt.Int(1000))) if retb == "none"
                    else output.set(loc.load() + pt.Int(1000) + call_b)),
            )

        def B_impl(m, x):
            loc = pt.ScratchVar(pt.TealType.uint64)
            t = abi.Uint64()
            r = abi.Uint64()
            body = pt.Seq(
                loc.store(m * pt.Int(100) + x),
                pt.If(m == pt.Int(0)).Then(pt.Return() if retb == "none" else pt.Return(pt.Int(2))),
                t.set(m - pt.Int(1)),
                r.set(A(t)),
                pt.App.globalPut(pt.Bytes("b"), r.get() + loc.load()),
                pt.Return() if retb == "none" else pt.Return(r.get() + loc.load()),
            )
            return body

        def B(m, x):
            return B_impl(m, x)
        holder["B"] = pt.Subroutine(pt.TealType.none if retb == "none" else pt.TealType.uint64)(B)
        n = abi.Uint64()
        res = abi.Uint64()
        return pt.Seq(n.set(_arg_n()), res.set(A(n)), pt.App.globalPut(pt.Bytes("r"), res.get()), pt.Int(1))
    if k == "abi_argtypes":
        # a routine of n ABI arguments of storage types u(int64) / s(tring); its body applies to argument `pos` the
        # opcode of its own type (use == "right") or of the other type (use == "wrong": PyTeal must refuse it)
        types = nat["types"]
        pos = nat["pos"]
        wrong = nat["use"] == "wrong"
        names = ["a%d" % i for i in range(len(types))]
        ann = {nm: (abi.Uint64 if t == "u" else abi.String) for nm, t in zip(names, types)}
        ann["output"] = abi.Uint64
        ann["return"] = pt.Expr

        def body(*args, output):
            g = args[pos].get()
            as_bytes = (types[pos] == "s") != wrong
            return output.set(pt.Len(g) if as_bytes else g + pt.Int(1))
        src = "def f(%s, *, output):\n    return body(%s, output=output)\n" % (", ".join(names), ", ".join(names))
        ns = {"body": body}
        exec(src, ns)
        f = ns["f"]
        f.__annotations__ = ann
        sub = pt.ABIReturnSubroutine(f)
        vals = [abi.Uint64() if t == "u" else abi.String() for t in types]
        res = abi.Uint64()
        return pt.Seq(*[v.set(_arg_n() + pt.Int(i)) if t == "u" else v.set(pt.Txn.application_args[1]) for i, (v, t) in enumerate(zip(vals, types))],
                      res.set(sub(*vals)), pt.App.globalPut(pt.Bytes("r"), res.get()), pt.Int(1))
    if k == "abi_string":
        @pt.ABIReturnSubroutine
        def twice(s: abi.String, *, output: abi.String) -> pt.Expr:
            return output.set(pt.Concat(s.get(), s.get()))
        s = abi.String()
        o = abi.String()
        return pt.Seq(s.set(pt.Txn.application_args[1]), o.set(twice(s)),
                      pt.App.globalPut(pt.Bytes("r"), pt.Concat(pt.Bytes("<"), o.get(), pt.Bytes(">"))), pt.Int(1))
    if k == "abi_byref":
        # an ABI-returning routine that also takes ScratchVar (by-reference) parameters at various positions
        pos = nat.get("pos", "second")
        nested = nat.get("nested", False)
        if pos == "only":
            @pt.ABIReturnSubroutine
            def bump(v: pt.ScratchVar, *, output: abi.Uint64) -> pt.Expr:
                return pt.Seq(v.store(v.load() + pt.Int(3)), output.set(v.load() * pt.Int(2)))
            call = lambda a, x, y: bump(x)
        elif pos == "first":
            @pt.ABIReturnSubroutine
            def bump(v: pt.ScratchVar, a: abi.Uint64, *, output: abi.Uint64) -> pt.Expr:
                return pt.Seq(v.store(v.load() + a.get()), output.set(v.load() * pt.Int(2)))
            call = lambda a, x, y: bump(x, a)
        elif pos == "second":
            @pt.ABIReturnSubroutine
            def bump(a: abi.Uint64, v: pt.ScratchVar, *, output: abi.Uint64) -> pt.Expr:
                return pt.Seq(v.store(v.load() + a.get()), output.set(v.load() * pt.Int(2)))
            call = lambda a, x, y: bump(a, x)
        elif pos == "two":
            @pt.ABIReturnSubroutine
            def bump(v: pt.ScratchVar, a: abi.Uint64, w: pt.ScratchVar, *, output: abi.Uint64) -> pt.Expr:
                return pt.Seq(v.store(v.load() + a.get()), w.store(w.load() * pt.Int(10)), output.set(v.load() + w.load()))
            call = lambda a, x, y: bump(x, a, y)
        else:  # "noout": by-reference parameter, no output
            @pt.ABIReturnSubroutine
            def bump(a: abi.Uint64, v: pt.ScratchVar) -> pt.Expr:
                return v.store(v.load() + a.get())
            call = lambda a, x, y: bump(a, x)
        a = abi.Uint64()
        res = abi.Uint64()
        x, y = pt.ScratchVar(), pt.ScratchVar()
        setup = [a.set(_arg_n()), x.store(pt.Int(5)), y.store(pt.Int(7))]
        use = res.set(call(a, x, y)) if pos != "noout" else call(a, x, y)
        report = [pt.App.globalPut(pt.Bytes("r"), res.get() if pos != "noout" else pt.Int(0)),
                  pt.App.globalPut(pt.Bytes("x"), x.load()), pt.App.globalPut(pt.Bytes("y"), y.load())]
        if not nested:
            return pt.Seq(*setup, use, *report, pt.Int(1))

        @pt.Subroutine(pt.TealType.uint64)
        def outer(k):
            # the ABI routine is called from another subroutine, with an operand already on the stack
            r2 = abi.Uint64()
            a2 = abi.Uint64()
            x2, y2 = pt.ScratchVar(), pt.ScratchVar()
            inner = r2.set(call(a2, x2, y2)) if pos != "noout" else call(a2, x2, y2)
            return pt.Seq(a2.set(k), x2.store(pt.Int(5)), y2.store(pt.Int(7)), inner,
                          pt.Return(pt.Int(1000) + x2.load() * pt.Int(100) + y2.load() + (r2.get() if pos != "noout" else pt.Int(0))))
        return pt.Seq(pt.App.globalPut(pt.Bytes("r"), pt.Int(100000) - outer(_arg_n())), pt.Int(1))
    if k == "abi_mixed":
        @pt.Subroutine(pt.TealType.uint64)
        def mixed(a: abi.Uint64, b: pt.Expr, c: abi.Uint8) -> pt.Expr:
            return a.get() * pt.Int(100) + b * pt.Int(10) + c.get()
        a = abi.Uint64()
        c = abi.Uint8()
        return pt.Seq(a.set(_arg_n()), c.set(pt.Int(7)),
                      pt.App.globalPut(pt.Bytes("r"), pt.Int(100000) - mixed(a, pt.Int(5), c)), pt.Int(1))
    if k == "abi_locals_plain":
        # a PLAIN value-returning subroutine whose body allocates ABI temporaries (frame locals under frame
        # pointers) and delivers its value as an expression body / through explicit Return / early Return
        style, retb = nat["style"], nat["ret"] == "b"
        wrap = (lambda e: pt.Itob(e)) if retb else (lambda e: e)

        @pt.Subroutine(pt.TealType.bytes if retb else pt.TealType.uint64)
        def plain(k_):
            s = abi.String()
            u = abi.Uint64()
            setup = [s.set("ab"), u.set(k_ + pt.Int(1))]
            value = wrap(pt.Len(s.get()) + u.get() + k_)
            if style == "expr":
                return pt.Seq(*setup, value)
            if style == "return":
                return pt.Seq(*setup, pt.Return(value))
            if style == "early":
                return pt.Seq(*setup, pt.If(k_ == pt.Int(0)).Then(pt.Return(wrap(pt.Int(77)))), pt.Return(value))
            return pt.Seq(*setup, pt.If(k_ == pt.Int(0)).Then(pt.Return(wrap(pt.Int(77)))).Else(pt.Return(value)))
        got = pt.Btoi(plain(_arg_n())) if retb else plain(_arg_n())
        return pt.Seq(pt.App.globalPut(pt.Bytes("r"), pt.Int(100000) - got), pt.Int(1))
    raise AssertionError(k)


def compile_native(nat, cfg):
    try:
        return "ok", rb.compile_cfg(build_native(nat), cfg)
    except drive.PT_ERRORS as e:
        return "pterr", e
    except Exception as e:
        return "crash", e


def expected_native(nat, inp):
    args = inp.get("args", [])
    if not args or len(args[0]) > 8:
        return ("FAIL",)
    n = int.from_bytes(args[0], "big")
    k = nat["kind"]
    nl = nat.get("locals", 0)
    eff = []
    try:
        if k == "abi_fact":
            def fact(n):
                tot = sum(_c(n * 10 + i + 1) for i in range(nl))
                _c(tot)
                if n <= 1:
                    return 1
                return _c(_c(n * fact(n - 1)) + tot)
            r = fact(n)
            eff.append(("gput", b"r", r))
        elif k == "abi_fib":
            def fib(n):
                return n if n <= 1 else _c(fib(n - 1) + fib(n - 2))
            eff.append(("gput", b"r", fib(n)))
        elif k == "abi_mutual":
            retb = nat.get("retb", "none")

            def A(n):
                loc = _c(n * 10 + 7)
                if n == 0:
                    return 1
                rb_ = B(n - 1, 3)
                if retb == "none":
                    return _c(loc + 1000)
                return _c(_c(loc + 1000) + rb_)

            def B(m, x):
                loc = _c(m * 100 + x)
                if m == 0:
                    return None if retb == "none" else 2
                r = A(m - 1)
                eff.append(("gput", b"b", _c(r + loc)))
                return None if retb == "none" else _c(r + loc)
            r = A(n)
            eff.append(("gput", b"r", r))
        elif k == "abi_string":
            if len(args) < 2:
                return ("FAIL",)
            s = args[1]
            # abi.String.set(bytes expr) prefixes the uint16 length; get() strips it again
            if len(s) > 0xFFFF:
                return ("FAIL",)
            eff.append(("gput", b"r", b"<" + s + s + b">"))
        elif k == "abi_byref":
            pos = nat.get("pos", "second")
            x, y = 5, 7
            if pos == "only":
                x = _c(x + 3)
                r = _c(x * 2)
            elif pos in ("first", "second"):
                x = _c(x + n)
                r = _c(x * 2)
            elif pos == "two":
                x = _c(x + n)
                y = _c(y * 10)
                r = _c(x + y)
            else:
                x = _c(x + n)
                r = 0
            if nat.get("nested"):
                tot = _c(_c(1000 + _c(x * 100)) + y + r)
                if tot > 100000:
                    return ("FAIL",)
                eff.append(("gput", b"r", 100000 - tot))
            else:
                eff += [("gput", b"r", r), ("gput", b"x", x), ("gput", b"y", y)]
        elif k == "abi_mixed":
            v = _c(_c(n * 100) + 50 + 7)
            if v > 100000:
                return ("FAIL",)
            eff.append(("gput", b"r", 100000 - v))
        elif k == "abi_locals_plain":
            v = 77 if (n == 0 and nat["style"] in ("early", "ifelse")) else _c(2 + _c(n + 1) + n)
            if v > 100000:
                return ("FAIL",)
            eff.append(("gput", b"r", 100000 - v))
    except _Ovf:
        return ("FAIL",)
    return ("APPROVE", 1, tuple(eff))


class _Ovf(Exception):
    pass


def _c(v):
    if v < 0 or v > M64:
        raise _Ovf()
    return v


def programs(tier="quick"):
    ins = [{"args": [bytes([n]), m]} for n in (0, 1, 2, 3, 5) for m in (b"ab", b"")]
    out = []
    for nl in (0, 1, 2, 3):
        out.append((1 + nl, {"kind": "abi_fact", "locals": nl}, ins))
    out.append((2, {"kind": "abi_fib"}, ins))
    for retb in ("none", "u"):
        out.append((3, {"kind": "abi_mutual", "retb": retb}, ins))
    for pos in ("only", "first", "second", "two", "noout"):
        for nested in (False, True):
            out.append((2, {"kind": "abi_byref", "pos": pos, "nested": nested}, ins))
    out.append((1, {"kind": "abi_string"}, ins))
    out.append((1, {"kind": "abi_mixed"}, ins))
    for style in ("expr", "return", "early", "ifelse"):
        for ret in ("u", "b"):
            out.append((2, {"kind": "abi_locals_plain", "style": style, "ret": ret}, ins))
    return out


def argtype_programs(tier="quick"):
    """every routine of 1..6 (thorough 7) ABI arguments over the storage types {uint64, bytes}, every argument
    position used once with the opcode of its own type and once with the opcode of the other type (C05: what PyTeal
    accepts must not meet a wrong-typed operand; the frame layout types each argument cell separately)"""
    import itertools
    ins = [{"args": [bytes([n]), m]} for n in (0, 3) for m in (b"ab", b"")]
    out = []
    for n in range(1, 7 if tier == "quick" else 8):
        for types in itertools.product("us", repeat=n):
            for pos in range(n):
                for use in ("right", "wrong"):
                    out.append((n, {"kind": "abi_argtypes", "types": "".join(types), "pos": pos, "use": use}, ins))
    return out
