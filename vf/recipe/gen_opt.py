"""Optimiser-focused recipes (C03): every sequence of <= k store/load operations over
1-2 automatic variables, a reserved-id variable and a DynamicScratchVar alias, with an
optional branch / loop boundary around one of the operations, in the main routine and
inside a subroutine called in operand position."""
import itertools

OPS = ["Sa", "Ua", "Sb", "Ub", "Sr", "Ur", "Da"]
O = ["Bytes", "6f"]


def _op(name, k):
    v = {"a": "a", "b": "b", "r": "r"}[name[1]]
    if name[0] == "S":
        return ["Store", v, ["Int", 10 + k]]
    if name[0] == "U":
        # the load is the first op of the statement, so it is adjacent to a preceding store
        return ["GPut", ["Itob", ["Load", v]], ["Int", k + 1]]
    if name[0] == "D":
        return ["GPut", ["Itob", ["DynLoad", v]], ["Int", k + 1]]
    raise AssertionError(name)


def _valid(seq):
    """every load of an automatic variable is preceded by a store (else PyTeal rejects / semantics undefined)"""
    stored = set()
    for nm in seq:
        v = nm[1]
        if nm[0] == "S":
            stored.add(v)
        elif v not in stored:
            return False
    return True


def sequences(maxlen):
    for n in range(1, maxlen + 1):
        for seq in itertools.product(OPS, repeat=n):
            if _valid(seq):
                yield seq


def programs(maxlen):
    """yields (size, program, placement)"""
    for seq in sequences(maxlen):
        n = len(seq)
        for wrap_at in [None] + list(range(n)):
            for wrap in (("If",) if wrap_at is not None else (None,)):
                stmts = []
                for k, nm in enumerate(seq):
                    st = _op(nm, k)
                    if wrap_at == k:
                        # a conditional boundary: the op only runs when the input says so. Loads must stay valid on
                        # both paths, so only wrap uses (loads) and redundant stores
                        if nm[0] == "S" and nm not in seq[:k]:
                            st = None
                            break
                        st = ["If", ["Eq", ["Btoi", ["Arg", 0]], ["Int", 1]], ["Seq", st]]
                    stmts.append(st)
                else:
                    vars_ = {"a": "u", "b": "u", "r": ["u", 7]}
                    main = ["Seq"] + stmts + [["Int", 1]]
                    yield n, {"mode": "A", "vars": vars_, "subs": {}, "main": main}, "main"
                    if "r" not in "".join(seq) or True:
                        body = ["Seq"] + stmts + [["Return", ["Int", 7]]]
                        sub = {"params": [], "ret": "u", "body": body, "locals": ["a", "b"], "init_locals": False}
                        m2 = ["Seq", ["GPut", ["Bytes", "72"], ["Minus", ["Int", 100], ["Call", "f"]]], ["Int", 1]]
                        yield n, {"mode": "A", "vars": {"r": ["u", 7]}, "subs": {"f": sub}, "main": m2}, "sub"
