"""Direct big-step evaluator of program recipes: the reference meaning of a
PyTeal program, written against the PyTeal *documentation* (source semantics),
with no reference to blocks, TEAL or the interpreter in vf.avm.

A recipe program is a dict:
  {"mode": "A"|"S", "main": term, "subs": {name: subdef}, "vars": {name: "u"|"b"}}
subdef = {"params": [[name, kind]], "ret": "none"|"u"|"b"|"abi:<t>", "body": term, "locals": [names]}

Outcome: ("APPROVE"|"REJECT", value, effects) | ("FAIL",) | ("RESOURCE",)
"""
import hashlib
import math

M64 = (1 << 64) - 1
MAXB = 4096


class EFail(Exception):
    pass


class EFuel(Exception):
    pass


class EReturn(Exception):
    def __init__(self, v):
        self.v = v


class EBreak(Exception):
    pass


class EContinue(Exception):
    pass


class EExit(Exception):
    """program-level Approve/Reject/Return in main"""

    def __init__(self, v):
        self.v = v


def _u(v):
    if v.__class__ is not int:
        raise EFail("type")
    return v


def _b(v):
    if v.__class__ is not bytes:
        raise EFail("type")
    return v


def _chk64(v):
    if v < 0 or v > M64:
        raise EFail("overflow")
    return v


def _chkb(v):
    if len(v) > MAXB:
        raise EFail("too long")
    return v


def _div(a, b):
    if b == 0:
        raise EFail("div0")
    return a // b


def _mod(a, b):
    if b == 0:
        raise EFail("div0")
    return a % b


def _exp(a, b):
    if a == 0 and b == 0:
        raise EFail("0^0")
    if a <= 1:
        return a
    if b > 64:
        raise EFail("overflow")
    return _chk64(a ** b)


def _shl(a, b):
    if b > 63:
        raise EFail("shift")
    return (a << b) & M64


def _shr(a, b):
    if b > 63:
        raise EFail("shift")
    return a >> b


def _bi(b):
    if len(b) > 64:
        raise EFail("bigint too long")
    return int.from_bytes(b, "big")


def _ib(i):
    if i < 0:
        raise EFail("underflow")
    return i.to_bytes((i.bit_length() + 7) // 8, "big")


def _getbit(x, i):
    if x.__class__ is int:
        if i >= 64:
            raise EFail("bit index")
        return (x >> i) & 1
    if i >= 8 * len(x):
        raise EFail("bit index")
    return (x[i // 8] >> (7 - i % 8)) & 1


def _setbit(x, i, v):
    if v > 1:
        raise EFail("bit value")
    if x.__class__ is int:
        if i >= 64:
            raise EFail("bit index")
        return (x & ~(1 << i) & M64) | (v << i)
    if i >= 8 * len(x):
        raise EFail("bit index")
    bb = bytearray(x)
    mask = 0x80 >> (i % 8)
    if v:
        bb[i // 8] |= mask
    else:
        bb[i // 8] &= ~mask & 0xFF
    return bytes(bb)


def _getbyte(x, i):
    if i >= len(x):
        raise EFail("byte index")
    return x[i]


def _setbyte(x, i, v):
    if i >= len(x) or v > 255:
        raise EFail("setbyte")
    return x[:i] + bytes([v]) + x[i + 1:]


def _btoi(b):
    if len(b) > 8:
        raise EFail("btoi")
    return int.from_bytes(b, "big")


def _substring(s, a, e):
    if a > e or e > len(s):
        raise EFail("substring")
    return s[a:e]


def _extract(s, a, l):
    if a + l > len(s):
        raise EFail("extract")
    return s[a:a + l]


def _suffix(s, a):
    if a > len(s):
        raise EFail("suffix")
    return s[a:]


def _extract_uint(n):
    def f(s, a):
        if a + n > len(s):
            raise EFail("extract_uint")
        return int.from_bytes(s[a:a + n], "big")
    return f


def _bpad(fn):
    def f(x, y):
        if len(x) > 64 or len(y) > 64:
            raise EFail("bigint too long")
        n = max(len(x), len(y))
        return fn(int.from_bytes(x, "big"), int.from_bytes(y, "big")).to_bytes(n, "big")
    return f


def _eq(a, b):
    if a.__class__ is not b.__class__:
        raise EFail("type")
    return int(a == b)


def _neq(a, b):
    if a.__class__ is not b.__class__:
        raise EFail("type")
    return int(a != b)


def _sha512_256(b):
    h = hashlib.new("sha512_256")
    h.update(b)
    return h.digest()


def _bzero(n):
    if n > MAXB:
        raise EFail("bzero")
    return bytes(n)


def _divw(hi, lo, d):
    if d == 0:
        raise EFail("div0")
    q = ((hi << 64) | lo) // d
    if q > M64:
        raise EFail("overflow")
    return q


def _replace(s, i, r):
    if i + len(r) > len(s):
        raise EFail("replace")
    return s[:i] + r + s[i + len(r):]


def _bsqrt(b):
    return _ib(math.isqrt(_bi(b)))


# op name -> (arg kinds, function)   kinds: u / b / a
PURE = {
    "Add": ("uu", lambda a, b: _chk64(a + b)),
    "Minus": ("uu", lambda a, b: _chk64(a - b)),
    "Mul": ("uu", lambda a, b: _chk64(a * b)),
    "Div": ("uu", _div),
    "Mod": ("uu", _mod),
    "Exp": ("uu", _exp),
    "BitwiseAnd": ("uu", lambda a, b: a & b),
    "BitwiseOr": ("uu", lambda a, b: a | b),
    "BitwiseXor": ("uu", lambda a, b: a ^ b),
    "ShiftLeft": ("uu", _shl),
    "ShiftRight": ("uu", _shr),
    "Eq": ("aa", _eq),
    "Neq": ("aa", _neq),
    "Lt": ("uu", lambda a, b: int(a < b)),
    "Le": ("uu", lambda a, b: int(a <= b)),
    "Gt": ("uu", lambda a, b: int(a > b)),
    "Ge": ("uu", lambda a, b: int(a >= b)),
    "And": ("uu", lambda a, b: int(a != 0 and b != 0)),
    "Or": ("uu", lambda a, b: int(a != 0 or b != 0)),
    "GetBit": ("au", _getbit),
    "GetByte": ("bu", _getbyte),
    "BytesAdd": ("bb", lambda a, b: _chkb(_ib(_bi(a) + _bi(b)))),
    "BytesMinus": ("bb", lambda a, b: _ib(_bi(a) - _bi(b))),
    "BytesMul": ("bb", lambda a, b: _chkb(_ib(_bi(a) * _bi(b)))),
    "BytesDiv": ("bb", lambda a, b: _ib(_div(_bi(a), _bi(b)))),
    "BytesMod": ("bb", lambda a, b: _ib(_mod(_bi(a), _bi(b)))),
    "BytesAnd": ("bb", _bpad(lambda a, b: a & b)),
    "BytesOr": ("bb", _bpad(lambda a, b: a | b)),
    "BytesXor": ("bb", _bpad(lambda a, b: a ^ b)),
    "BytesEq": ("bb", lambda a, b: int(_bi(a) == _bi(b))),
    "BytesNeq": ("bb", lambda a, b: int(_bi(a) != _bi(b))),
    "BytesLt": ("bb", lambda a, b: int(_bi(a) < _bi(b))),
    "BytesLe": ("bb", lambda a, b: int(_bi(a) <= _bi(b))),
    "BytesGt": ("bb", lambda a, b: int(_bi(a) > _bi(b))),
    "BytesGe": ("bb", lambda a, b: int(_bi(a) >= _bi(b))),
    "ExtractUint16": ("bu", _extract_uint(2)),
    "ExtractUint32": ("bu", _extract_uint(4)),
    "ExtractUint64": ("bu", _extract_uint(8)),
    "Concat": ("bb", lambda a, b: _chkb(a + b)),
    # unary
    "Not": ("u", lambda a: int(a == 0)),
    "BitwiseNot": ("u", lambda a: a ^ M64),
    "Len": ("b", len),
    "Itob": ("u", lambda a: a.to_bytes(8, "big")),
    "Btoi": ("b", _btoi),
    "Sqrt": ("u", math.isqrt),
    "BitLen": ("a", lambda a: a.bit_length() if a.__class__ is int else int.from_bytes(a, "big").bit_length()),
    "Sha256": ("b", lambda a: hashlib.sha256(a).digest()),
    "Sha512_256": ("b", _sha512_256),
    "BytesNot": ("b", lambda a: bytes(c ^ 0xFF for c in a) if len(a) <= 64 else _bi(a)),
    "BytesSqrt": ("b", _bsqrt),
    "BytesZero": ("u", _bzero),
    # ternary
    "Substring": ("buu", _substring),
    "Extract": ("buu", _extract),
    "Suffix": ("bu", _suffix),
    "SetBit": ("auu", _setbit),
    "SetByte": ("buu", _setbyte),
    "Divw": ("uuu", lambda hi, lo, d: _divw(hi, lo, d)),
    "Replace": ("bub", lambda s, i, r: _replace(s, i, r)),
    "Sha3_256": ("b", lambda a: hashlib.sha3_256(a).digest()),
}

NARY = {"AndN": "And", "OrN": "Or", "AddN": "Add", "MulN": "Mul", "ConcatN": "Concat"}


class Env:
    """Transaction context as the source semantics sees it (plain values)."""

    def __init__(self, mode="A", app_args=(), lsig_args=(), fields=None, globals_=None, gfields=None, group=None,
                 group_index=0):
        self.mode = mode
        self.app_args = list(app_args)
        self.lsig_args = list(lsig_args)
        self.fields = dict(fields or {})
        self.globals = dict(globals_ or {})
        self.gfields = dict(gfields or {})
        self.group = group
        self.group_index = group_index
        self.group_size = len(group) if group else 1
        self.arrays = {}
        self.sender = self.fields.get("Sender", b"\x01" * 32)


class Evaluator:
    def __init__(self, prog, env, fuel=400, tickmode="log"):
        self.prog = prog
        self.env = env
        self.fuel = fuel
        self.tickmode = tickmode
        self.effects = []
        self.globals = dict(env.globals)
        self.cells = {}  # global variable cells
        self.locals = dict(getattr(env, "locals", None) or {})
        self.journal = 0
        self.depth = 0
        self.in_main = True

    def burn(self):
        self.fuel -= 1
        if self.fuel < 0:
            raise EFuel()

    def run(self):
        frame = {}
        try:
            try:
                v = self.ev(self.prog["main"], frame)
            except EReturn as r:
                v = r.v
            except EExit as r:
                v = r.v
            if v is None:
                # a none-typed main without a return is not a behaviour (compile error)
                return ("NORETURN",)
            _u(v)
            return ("APPROVE" if v else "REJECT", v, self.effects)
        except EFail:
            return ("FAIL",)
        except EFuel:
            return ("RESOURCE",)
        except RecursionError:
            return ("RESOURCE",)

    # ------------------------------------------------------------------
    def tick(self, k):
        if self.tickmode == "log":
            self.effects.append(("log", bytes([k])))
        elif self.tickmode == "gput":
            self.globals[b"t"] = k
            self.effects.append(("gput", b"t", k))
        elif self.tickmode == "journal":
            self.journal = _chk64(self.journal * 8 + k)
        else:
            raise AssertionError(self.tickmode)

    def lookup(self, name, frame):
        if name in frame:
            return frame, name
        return self.cells, name

    def ev(self, t, fr):
        """evaluate a term; returns a value or None (none-typed)."""
        self.burn()
        k = t[0]
        m = getattr(self, "t_" + k, None)
        if m is not None:
            return m(t, fr)
        spec = PURE.get(k)
        if spec is not None:
            kinds, fn = spec
            vals = []
            for kind, sub in zip(kinds, t[1:]):
                v = self.ev(sub, fr)
                if kind == "u":
                    _u(v)
                elif kind == "b":
                    _b(v)
                elif v is None:
                    raise AssertionError("none operand")
                vals.append(v)
            r = fn(*vals)
            if r.__class__ is bytes:
                _chkb(r)
            return r
        if k in NARY:
            kinds, fn = PURE[NARY[k]]
            vals = []
            for sub in t[1:]:
                v = self.ev(sub, fr)
                (_u if kinds[0] == "u" else _b)(v)
                vals.append(v)
            acc = vals[0]
            for v in vals[1:]:
                acc = fn(acc, v)
            return acc
        raise AssertionError("unknown term %r" % (k,))

    # ---- leaves
    def t_Int(self, t, fr):
        return t[1]

    def t_Bytes(self, t, fr):
        v = t[1]
        return bytes.fromhex(v) if isinstance(v, str) else v

    def t_Arg(self, t, fr):
        args = self.env.app_args if self.env.mode == "A" else self.env.lsig_args
        if t[1] >= len(args):
            raise EFail("arg index")
        return args[t[1]]

    def t_Tick(self, t, fr):
        self.tick(t[1])
        return t[2] if len(t) > 2 else t[1]

    def t_TickS(self, t, fr):
        self.tick(t[1])
        return None

    def t_Load(self, t, fr):
        cells, name = self.lookup(t[1], fr)
        if name not in cells:
            # reading before writing: scratch initial value
            return 0
        return cells[name]

    def t_DynLoad(self, t, fr):
        return self.t_Load(t, fr)

    def t_TxnField(self, t, fr):
        f = t[1]
        if f == "NumAppArgs":
            return len(self.env.app_args)
        if f == "GroupIndex":
            return self.env.group_index
        return self.env.fields[f]

    def t_GtxnField(self, t, fr):
        # ["GtxnField", index (int or term), field]: a field of another transaction of the group
        i = t[1] if isinstance(t[1], int) else _u(self.ev(t[1], fr))
        grp = self.env.group or [None]
        if i >= len(grp):
            raise EFail("group index")
        if i == self.env.group_index:
            return self.t_TxnField(["TxnField", t[2]], fr)
        return grp[i][t[2]]

    def t_TxnArr(self, t, fr):
        # ["TxnArr", "Accounts"|"Assets"|"Applications"|"ApplicationArgs", index (int or term)]
        i = t[2] if isinstance(t[2], int) else _u(self.ev(t[2], fr))
        name = t[1]
        if name == "ApplicationArgs":
            arr = self.env.app_args
        elif name == "Accounts":
            arr = [self.env.sender] + list(self.env.arrays.get("Accounts", []))
        elif name == "Applications":
            arr = [self.env.fields.get("ApplicationID", 7)] + list(self.env.arrays.get("Applications", []))
        else:
            arr = list(self.env.arrays.get(name, []))
        if i >= len(arr):
            raise EFail("array index")
        return arr[i]

    def t_GlobalField(self, t, fr):
        f = t[1]
        if f == "GroupSize":
            return self.env.group_size
        return self.env.gfields[f]

    # ---- local state of the sender (account reference Int(0))
    def t_LPut(self, t, fr):
        key = _b(self.ev(t[1], fr))
        v = self.ev(t[2], fr)
        self.locals[key] = v
        self.effects.append(("lput", self.env.sender, key, v))
        return None

    def t_LGet(self, t, fr):
        key = _b(self.ev(t[1], fr))
        return self.locals.get(key, 0)

    def t_LDel(self, t, fr):
        key = _b(self.ev(t[1], fr))
        self.locals.pop(key, None)
        self.effects.append(("ldel", self.env.sender, key))
        return None

    # ---- inner transactions: ["Itxn", style, [[[field, expr], ...], ...]]
    def t_Itxn(self, t, fr):
        group = []
        for fields in t[2]:
            tx = {}
            for f, e in fields:
                if f in ("ApplicationArgs", "Accounts", "Assets", "Applications"):
                    vals = [self.ev(x, fr) for x in e]
                    if f == "ApplicationArgs" and len(vals) > 16:
                        raise EFail("too many args")
                    if vals:
                        tx[f] = vals
                    continue
                v = self.ev(e, fr)
                if f == "TypeEnum":
                    tx["TypeEnum"] = v
                    tx["Type"] = {1: b"pay", 2: b"keyreg", 3: b"acfg", 4: b"axfer", 5: b"afrz", 6: b"appl"}[v]
                else:
                    if f in ("Receiver", "AssetReceiver", "RekeyTo", "CloseRemainderTo", "Sender") and len(_b(v)) != 32:
                        raise EFail("address length")
                    tx[f] = v
            group.append(tx)
        self.effects.append(("itxn", group))
        return None

    def t_GlobalGet(self, t, fr):
        key = _b(self.ev(t[1], fr))
        return self.globals.get(key, 0)

    def t_GlobalGetExHas(self, t, fr):
        # Seq(mv := App.globalGetEx(Int(0), key), mv.hasValue())
        key = _b(self.ev(t[1], fr))
        return int(key in self.globals)

    def t_GlobalGetExVal(self, t, fr):
        key = _b(self.ev(t[1], fr))
        return self.globals.get(key, 0)

    # ---- statements
    def t_Store(self, t, fr):
        v = self.ev(t[2], fr)
        cells, name = self.lookup(t[1], fr)
        cells[name] = v
        return None

    def t_Log(self, t, fr):
        v = _b(self.ev(t[1], fr))
        self.effects.append(("log", v))
        return None

    def t_GPut(self, t, fr):
        key = _b(self.ev(t[1], fr))
        v = self.ev(t[2], fr)
        if len(key) > 64:
            raise EFail("key")
        self.globals[key] = v
        self.effects.append(("gput", key, v))
        return None

    def t_GDel(self, t, fr):
        key = _b(self.ev(t[1], fr))
        self.globals.pop(key, None)
        self.effects.append(("gdel", key))
        return None

    def t_Pop(self, t, fr):
        self.ev(t[1], fr)
        return None

    def t_Assert(self, t, fr):
        for c in t[1:]:
            if _u(self.ev(c, fr)) == 0:
                raise EFail("assert")
        return None

    def t_Seq(self, t, fr):
        v = None
        for s in t[1:]:
            v = self.ev(s, fr)
        return v

    def t_If(self, t, fr):
        c = _u(self.ev(t[1], fr))
        if c:
            return self.ev(t[2], fr)
        if len(t) > 3 and t[3] is not None:
            return self.ev(t[3], fr)
        return None

    def t_IfChain(self, t, fr):
        # ["IfChain", [[c1, s1], [c2, s2], ...], else_or_None]
        for c, s in t[1]:
            if _u(self.ev(c, fr)):
                return self.ev(s, fr)
        if t[2] is not None:
            return self.ev(t[2], fr)
        return None

    def t_Cond(self, t, fr):
        for c, s in t[1]:
            if _u(self.ev(c, fr)):
                return self.ev(s, fr)
        raise EFail("cond: no arm")

    def t_While(self, t, fr):
        while True:
            self.burn()
            if not _u(self.ev(t[1], fr)):
                break
            try:
                self.ev(t[2], fr)
            except EBreak:
                break
            except EContinue:
                continue
        return None

    def t_For(self, t, fr):
        self.ev(t[1], fr)
        while True:
            self.burn()
            if not _u(self.ev(t[2], fr)):
                break
            try:
                self.ev(t[4], fr)
            except EBreak:
                break
            except EContinue:
                pass
            self.ev(t[3], fr)
        return None

    def t_Break(self, t, fr):
        raise EBreak()

    def t_Continue(self, t, fr):
        raise EContinue()

    def t_Err(self, t, fr):
        raise EFail("err")

    def t_Approve(self, t, fr):
        raise EExit(1)

    def t_Reject(self, t, fr):
        raise EExit(0)

    def t_Return(self, t, fr):
        v = self.ev(t[1], fr) if len(t) > 1 and t[1] is not None else None
        raise EReturn(v)

    def t_Exit(self, t, fr):
        raise EExit(_u(self.ev(t[1], fr)))

    # ---- subroutine call (C02)
    def t_Call(self, t, fr):
        name = t[1]
        sd = self.prog["subs"][name]
        new = {}
        refs = {}
        args = []
        for (pn, kind), a in zip(sd["params"], t[2:]):
            if kind == "ref":
                # a is ["Ref", varname]: alias the caller's cell
                cells, nm = self.lookup(a[1], fr)
                refs[pn] = (cells, nm)
            else:
                args.append((pn, self.ev(a, fr)))
        for pn, v in args:
            new[pn] = v
        lt = sd.get("local_types", {})
        for ln in sd.get("locals", []):
            new[ln] = 0 if lt.get(ln, "u") == "u" else b""
        new = _Frame(new, refs)
        self.depth += 1
        if self.depth > 60:
            raise EFuel()
        try:
            try:
                v = self.ev(sd["body"], new)
            except EReturn as r:
                v = r.v
        finally:
            self.depth -= 1
        if sd["ret"] == "none":
            return None
        return v


class _Frame(dict):
    """locals of one activation; by-reference parameters alias a caller cell"""

    def __init__(self, vals, refs):
        super().__init__(vals)
        self.refs = refs

    def __contains__(self, k):
        return dict.__contains__(self, k) or k in self.refs

    def __getitem__(self, k):
        if k in self.refs:
            cells, nm = self.refs[k]
            return cells.get(nm, 0) if not isinstance(cells, _Frame) else cells[nm]
        return dict.__getitem__(self, k)

    def __setitem__(self, k, v):
        if k in self.refs:
            cells, nm = self.refs[k]
            cells[nm] = v
        else:
            dict.__setitem__(self, k, v)


def evaluate(prog, env, fuel=400, tickmode="log"):
    ev = Evaluator(prog, env, fuel, tickmode)
    out = ev.run()
    return out, ev
