"""Render a program recipe as generated Python source files (C15): one constructor per
line, every integer constant replaced by a unique marker whose (file, line) is recorded.
Subroutines go to a second module, the main routine and global variables to the first."""

BINOPS = {"Add", "Minus", "Mul", "Div", "Mod", "Lt", "Le", "Gt", "Ge", "Eq", "Neq", "And", "Or", "BitwiseXor", "BitwiseAnd",
          "BitwiseOr", "Concat", "Btoi", "Itob", "Not", "Len", "Pop", "Log", "BytesEq"}


class Renderer:
    def __init__(self, prog, mod_a, mod_b, leading_blank=0, marker_base=100000, line_comment=None):
        self.prog = prog
        # text put behind every marker constant as a Python comment (source lines that LOOK like imports,
        # compiler internals, ... must not confuse the frame selection)
        self.line_comment = ("  # " + line_comment) if line_comment else ""
        self.mod_a, self.mod_b = mod_a, mod_b
        self.leading_blank = leading_blank
        self.next_marker = marker_base
        self.markers = {}  # marker -> (file, line 1-based)
        self.cur_file = None
        self.lines = None
        self.scope = {}

    # ---- emission
    def emit(self, text, indent):
        self.lines.append("    " * indent + text)

    def mark(self):
        m = self.next_marker
        self.next_marker += 1
        return m

    def lineno(self):
        return len(self.lines) + 1  # of the line about to be emitted

    # ---- expressions
    def r(self, t, ind, tail=""):
        k = t[0]
        if k == "Int":
            m = self.mark()
            self.markers[m] = (self.cur_file, self.lineno())
            self.emit("pt.Int(%d)%s%s" % (m, tail, self.line_comment), ind)
        elif k == "Bytes":
            v = t[1]
            self.emit("pt.Bytes(bytes.fromhex(%r))%s" % (v if isinstance(v, str) else bytes(v).hex(), tail), ind)
        elif k == "Arg":
            self.emit("pt.Txn.application_args[%d]%s" % (t[1], tail), ind)
        elif k == "Load":
            kind = self.scope.get(t[1], "var")
            self.emit(("%s%s" % (t[1], tail)) if kind == "val" else ("%s.load()%s" % (t[1], tail)), ind)
        elif k == "Store":
            self.emit("%s.store(" % t[1], ind)
            self.r(t[2], ind + 1)
            self.emit(")" + tail, ind)
        elif k in ("TickS",):
            self.emit("pt.App.globalPut(pt.Bytes(\"t\"), pt.Int(%d))%s" % (t[1], tail), ind)
        elif k == "Tick":
            self.emit("pt.Seq(pt.App.globalPut(pt.Bytes(\"t\"), pt.Int(%d)), pt.Int(%d))%s" % (t[1], t[2] if len(t) > 2 else t[1], tail), ind)
        elif k in ("Break", "Continue", "Approve", "Reject", "Err"):
            self.emit("pt.%s()%s" % (k, tail), ind)
        elif k == "Return":
            if len(t) > 1 and t[1] is not None:
                self.emit("pt.Return(", ind)
                self.r(t[1], ind + 1)
                self.emit(")" + tail, ind)
            else:
                self.emit("pt.Return()" + tail, ind)
        elif k == "Exit":
            self.emit("pt.Return(", ind)
            self.r(t[1], ind + 1)
            self.emit(")" + tail, ind)
        elif k == "Seq":
            self.emit("pt.Seq(", ind)
            for s in t[1:]:
                self.r(s, ind + 1, ",")
            self.emit(")" + tail, ind)
        elif k == "Assert":
            self.emit("pt.Assert(", ind)
            for c in t[1:]:
                self.r(c, ind + 1, ",")
            self.emit(")" + tail, ind)
        elif k == "GPut":
            self.emit("pt.App.globalPut(", ind)
            self.r(t[1], ind + 1, ",")
            self.r(t[2], ind + 1, ",")
            self.emit(")" + tail, ind)
        elif k == "If":
            self.emit("pt.If(", ind)
            self.r(t[1], ind + 1)
            self.emit(").Then(", ind)
            self.r(t[2], ind + 1)
            if len(t) > 3 and t[3] is not None:
                self.emit(").Else(", ind)
                self.r(t[3], ind + 1)
            self.emit(")" + tail, ind)
        elif k == "IfChain":
            arms = t[1]
            self.emit("pt.If(", ind)
            self.r(arms[0][0], ind + 1)
            self.emit(").Then(", ind)
            self.r(arms[0][1], ind + 1)
            for c, s in arms[1:]:
                self.emit(").ElseIf(", ind)
                self.r(c, ind + 1)
                self.emit(").Then(", ind)
                self.r(s, ind + 1)
            if t[2] is not None:
                self.emit(").Else(", ind)
                self.r(t[2], ind + 1)
            self.emit(")" + tail, ind)
        elif k == "Cond":
            self.emit("pt.Cond(", ind)
            for c, s in t[1]:
                self.emit("[", ind + 1)
                self.r(c, ind + 2, ",")
                self.r(s, ind + 2, ",")
                self.emit("],", ind + 1)
            self.emit(")" + tail, ind)
        elif k == "While":
            self.emit("pt.While(", ind)
            self.r(t[1], ind + 1)
            self.emit(").Do(", ind)
            self.r(t[2], ind + 1)
            self.emit(")" + tail, ind)
        elif k == "For":
            self.emit("pt.For(", ind)
            self.r(t[1], ind + 1, ",")
            self.r(t[2], ind + 1, ",")
            self.r(t[3], ind + 1, ",")
            self.emit(").Do(", ind)
            self.r(t[4], ind + 1)
            self.emit(")" + tail, ind)
        elif k == "Call":
            self.emit("%s(" % t[1], ind)
            for a in t[2:]:
                if a[0] == "Ref":
                    self.emit("%s," % a[1], ind + 1)
                else:
                    self.r(a, ind + 1, ",")
            self.emit(")" + tail, ind)
        elif k in BINOPS:
            self.emit("pt.%s(" % k, ind)
            for a in t[1:]:
                self.r(a, ind + 1, ",")
            self.emit(")" + tail, ind)
        else:
            raise KeyError("render: unsupported term %s" % k)

    # ---- modules
    def render(self):
        """-> {filename: text}"""
        files = {}
        subs = self.prog.get("subs", {})
        # module b: subroutines
        self.cur_file = self.mod_b + ".py"
        self.lines = [""] * self.leading_blank
        self.emit("import pyteal as pt", 0)
        self.emit("", 0)
        for name, sd in subs.items():
            self.emit("", 0)
            rett = {"none": "pt.TealType.none", "u": "pt.TealType.uint64", "b": "pt.TealType.bytes"}[sd["ret"]]
            self.emit("@pt.Subroutine(%s)" % rett, 0)
            params = []
            self.scope = {}
            for pn, kind in sd["params"]:
                if kind == "ref":
                    params.append("%s: pt.ScratchVar" % pn)
                    self.scope[pn] = "var"
                else:
                    params.append(pn)
                    self.scope[pn] = "val"
            self.emit("def %s(%s):" % (name, ", ".join(params)), 0)
            for ln in sd.get("locals", []):
                ty = sd.get("local_types", {}).get(ln, "u")
                self.emit("%s = pt.ScratchVar(%s)" % (ln, "pt.TealType.uint64" if ty == "u" else "pt.TealType.bytes"), 1)
            self.emit("return (", 1)
            self.r(sd["body"], 2)
            self.emit(")", 1)
        files[self.cur_file] = "\n".join(self.lines) + "\n"
        # module a: globals + main
        self.cur_file = self.mod_a + ".py"
        self.lines = []
        self.emit("import pyteal as pt", 0)
        if subs:
            self.emit("from %s import %s" % (self.mod_b, ", ".join(subs)), 0)
        self.emit("", 0)
        self.scope = {}
        for vn, ty in self.prog.get("vars", {}).items():
            if isinstance(ty, (list, tuple)):
                self.emit("%s = pt.ScratchVar(%s, %d)" % (vn, "pt.TealType.uint64" if ty[0] == "u" else "pt.TealType.bytes", ty[1]), 0)
            else:
                self.emit("%s = pt.ScratchVar(%s)" % (vn, "pt.TealType.uint64" if ty == "u" else "pt.TealType.bytes"), 0)
        self.emit("", 0)
        self.emit("", 0)
        self.emit("def program():", 0)
        self.emit("return (", 1)
        self.r(self.prog["main"], 2)
        self.emit(")", 1)
        files[self.cur_file] = "\n".join(self.lines) + "\n"
        return files
