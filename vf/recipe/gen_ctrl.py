"""Exhaustive breadth-first enumeration of control-flow recipes (driver C of C01,
reused by C03/C04/C05/C17/C18/C20).

A *state* of the exploration is one statement-sequence recipe; a *transition*
is one application of a grammar production (adding a node).  Enumeration is by
total node count, so the first counterexample is a smallest one.
"""

CONDS = {
    "c0": ["Int", 0],
    "c1": ["Int", 1],
    "cin": ["Eq", ["Btoi", ["Arg", 0]], ["Int", 1]],
    "cctr": ["Lt", ["Load", "ctr"], ["Int", 2]],
    "ctick": ["Seq", ["TickS", 3], ["Lt", ["Load", "ctr"], ["Int", 1]]],
}

ATOMS = {
    "tick": ["TickS", 1],
    "inc": ["Store", "ctr", ["Add", ["Load", "ctr"], ["Int", 1]]],
    "ret": ["Approve"],
    "rej": ["Reject"],
    "retv": ["Exit", ["Load", "ctr"]],
    "break": ["Break"],
    "cont": ["Continue"],
    "err": ["Err"],
    "empty": ["Seq"],
}

FULL_ATOMS = ["tick", "inc", "ret", "rej", "retv", "break", "cont", "err", "empty", "assert"]
FULL_COMPOUNDS = ["if", "ifelse", "ifelif", "cond2", "while", "for"]
FULL_CONDS = ["c0", "c1", "cin", "cctr", "ctick"]

LOOP_ATOMS = ["tick", "inc", "break", "cont", "ret"]
LOOP_COMPOUNDS = ["if", "ifelse", "ifelif", "cond2", "while", "for"]
LOOP_CONDS = ["cin", "cctr"]


class Grammar:
    def __init__(self, atoms=FULL_ATOMS, compounds=FULL_COMPOUNDS, conds=FULL_CONDS):
        self.atoms, self.compounds, self.conds = atoms, compounds, conds
        self._memo = {}

    def stmts(self, n, inloop):
        """all single statements with exactly n nodes (as shape tuples)"""
        key = ("s", n, inloop)
        if key in self._memo:
            return self._memo[key]
        out = []
        if n == 1:
            for a in self.atoms:
                if a in ("break", "cont") and not inloop:
                    continue
                if a == "assert":
                    for c in self.conds:
                        out.append(("assert", c))
                else:
                    out.append((a,))
        else:
            cs = self.compounds
            for c in self.conds:
                if "if" in cs:
                    for b in self.bodies(n - 1, inloop):
                        out.append(("if", c, b))
                if "ifelse" in cs:
                    for a in range(1, n - 1):
                        for b1 in self.bodies(a, inloop):
                            for b2 in self.bodies(n - 1 - a, inloop):
                                out.append(("ifelse", c, b1, b2))
                if "while" in cs:
                    for b in self.bodies(n - 1, True):
                        out.append(("while", c, b))
            if "ifelif" in cs and n >= 4:
                # If(c).Then(b1).ElseIf(cin).Then(b2).Else(b3): second condition fixed to the other input test
                for c in self.conds:
                    for a in range(1, n - 2):
                        for bsz in range(1, n - 1 - a):
                            for b1 in self.bodies(a, inloop):
                                for b2 in self.bodies(bsz, inloop):
                                    for b3 in self.bodies(n - 1 - a - bsz, inloop):
                                        # (the second condition reads the counter only where the alphabet
                                        # has a counter that is written first)
                                        out.append(("ifelif", c, b1, b2, b3) if "cctr" in self.conds
                                                   else ("ifelif", c, b1, b2, b3, "cin"))
            if "cond2" in cs and n >= 3:
                for c in self.conds:
                    for a in range(1, n - 1):
                        for b1 in self.bodies(a, inloop):
                            for b2 in self.bodies(n - 1 - a, inloop):
                                out.append(("cond2", c, b1, b2))
            if "for" in cs:
                for b in self.bodies(n - 1, True):
                    out.append(("for", b))
        self._memo[key] = out
        return out

    def bodies(self, n, inloop):
        """all statement sequences totalling exactly n nodes"""
        key = ("b", n, inloop)
        if key in self._memo:
            return self._memo[key]
        out = []
        if n == 0:
            out.append(())
        else:
            for a in range(1, n + 1):
                for s in self.stmts(a, inloop):
                    for rest in self.bodies(n - a, inloop):
                        out.append((s,) + rest)
        self._memo[key] = out
        return out

    def programs(self, maxn):
        for n in range(1, maxn + 1):
            for b in self.bodies(n, False):
                yield n, b


def shape_to_term(body):
    """shape tuple -> recipe term (a Seq of statements)"""
    return ["Seq"] + [_stmt(s) for s in body]


def _seq(body):
    return ["Seq"] + [_stmt(s) for s in body]


def _stmt(s):
    k = s[0]
    if k == "assert":
        return ["Assert", CONDS[s[1]]]
    if k in ATOMS:
        return ATOMS[k]
    if k == "if":
        return ["If", CONDS[s[1]], _seq(s[2])]
    if k == "ifelse":
        return ["If", CONDS[s[1]], _seq(s[2]), _seq(s[3])]
    if k == "ifelif":
        return ["IfChain", [[CONDS[s[1]], _seq(s[2])], [CONDS[s[5] if len(s) > 5 else "cctr"], _seq(s[3])]], _seq(s[4])]
    if k == "cond2":
        return ["Cond", [[CONDS[s[1]], _seq(s[2])], [CONDS["c1"], _seq(s[3])]]]
    if k == "while":
        return ["While", CONDS[s[1]], _seq(s[2])]
    if k == "for":
        return ["For", ["Store", "i", ["Int", 0]], ["Lt", ["Load", "i"], ["Int", 2]],
                ["Store", "i", ["Add", ["Load", "i"], ["Int", 1]]], _seq(s[1])]
    raise AssertionError(k)


def uses(body, what):
    for s in body:
        if s[0] == what:
            return True
        for x in s[1:]:
            if isinstance(x, tuple) and x and isinstance(x[0], tuple) and uses(x, what):
                return True
            if isinstance(x, tuple) and not x:
                continue
    return False


def make_program(body, tail="implicit", mode="A"):
    """wrap a body shape into a full program recipe"""
    main = ["Seq", ["Store", "ctr", ["Int", 0]]] + [_stmt(s) for s in body]
    if tail == "implicit":
        main.append(["Add", ["Load", "ctr"], ["Int", 1]])
    elif tail == "approve":
        main.append(["Approve"])
    elif tail == "exit":
        main.append(["Exit", ["Add", ["Load", "ctr"], ["Int", 1]]])
    return {"mode": mode, "vars": {"ctr": "u", "i": "u"}, "subs": {}, "main": main}


def count_transitions(body):
    """number of grammar productions applied to reach this recipe from the empty one"""
    n = 0
    for s in body:
        n += 1
        for x in s[1:]:
            if isinstance(x, tuple) and (not x or isinstance(x[0], tuple)):
                n += count_transitions(x)
    return n


BARE_ATOMS = ["tick", "ret", "rej", "break", "cont", "err", "empty", "assert"]
BARE_CONDS = ["c0", "c1", "cin"]


def make_bare_program(body, tail="approve"):
    """no leading store: the body's first statement is the routine's first statement"""
    main = ["Seq"] + [_stmt(s) for s in body]
    if tail == "approve":
        main.append(["Approve"])
    else:
        main.append(["Int", 1])
    return {"mode": "A", "vars": {"ctr": "u", "i": "u"}, "subs": {}, "main": main}


def _sub_stmt(s):
    t = _stmt(s)
    return _retv_to_return(t)


def _retv_to_return(t):
    if isinstance(t, list):
        if t and t[0] == "Exit":
            return ["Return"]
        return [_retv_to_return(x) for x in t]
    return t


def make_sub_program(body, bare=False, ret="none"):
    """the body runs inside a subroutine f(); main = Seq(f(), Approve()) or Return(f())"""
    stmts = [_sub_stmt(s) for s in body]
    if not bare:
        stmts = [["Store", "ctr", ["Int", 0]]] + stmts
    if ret == "u":
        stmts.append(["Return", ["Add", ["Load", "ctr"], ["Int", 1]]] if not bare else ["Return", ["Int", 1]])
        main = ["Exit", ["Call", "f"]]
    else:
        main = ["Seq", ["Call", "f"], ["Approve"]]
    sub = {"params": [], "ret": ret, "body": ["Seq"] + stmts, "locals": ["ctr", "i"], "init_locals": False}
    return {"mode": "A", "vars": {}, "subs": {"f": sub}, "main": main}


def return_chains(max_arms=4):
    """RETURN ANALYSIS: chains of k conditional arms plus a final arm, in three spellings (If/ElseIf/Else, hand-nested
    If/Else, Cond), with EVERY assignment of {returns, falls through} to the arms, as the last statement of the main
    routine and of a subroutine (none- and value-returning).  Whether the routine needs a closing return is decided
    by the compiler's has_return analysis over exactly these shapes.
    yields (size, program recipe, inputs, label)"""
    import itertools
    for k in range(1, max_arms + 1):
        conds = [["Eq", ["Btoi", ["Arg", 0]], ["Int", i]] for i in range(k)]
        inputs = [{"args": [bytes([i]), b""]} for i in range(k + 2)]
        for mask in itertools.product((0, 1), repeat=k + 1):
            for place in ("main", "sub_none", "sub_u"):
                def arm(i):
                    if not mask[i]:
                        return ["Seq", ["TickS", i + 1]]
                    if place == "main":
                        return ["Seq", ["TickS", i + 1], ["Exit", ["Int", 1]]]
                    if place == "sub_none":
                        return ["Seq", ["TickS", i + 1], ["Return"]]
                    return ["Seq", ["TickS", i + 1], ["Return", ["Int", 10 + i]]]
                arms = [arm(i) for i in range(k + 1)]
                for spelling in ("ifchain", "nested", "cond"):
                    if spelling == "ifchain":
                        chain = ["IfChain", [[conds[i], arms[i]] for i in range(k)], arms[k]]
                    elif spelling == "nested":
                        chain = arms[k]
                        for i in reversed(range(k)):
                            chain = ["If", conds[i], arms[i], chain]
                    else:
                        chain = ["Cond", [[conds[i], arms[i]] for i in range(k)] + [[["Int", 1], arms[k]]]]
                    if place == "main":
                        prog = {"mode": "A", "vars": {}, "subs": {}, "main": ["Seq", chain, ["TickS", 7], ["Int", 1]]}
                    elif place == "sub_none":
                        sub = {"params": [], "ret": "none", "body": ["Seq", chain], "locals": [], "init_locals": False}
                        prog = {"mode": "A", "vars": {}, "subs": {"f": sub}, "main": ["Seq", ["Call", "f"], ["TickS", 7], ["Int", 1]]}
                    else:
                        if not all(mask):
                            # a value-returning routine must return on every path: close it explicitly
                            body = ["Seq", chain, ["Return", ["Int", 99]]]
                        else:
                            body = ["Seq", chain]
                        sub = {"params": [], "ret": "u", "body": body, "locals": [], "init_locals": False}
                        prog = {"mode": "A", "vars": {}, "subs": {"f": sub},
                                "main": ["Seq", ["GPut", ["Bytes", "72"], ["Call", "f"]], ["TickS", 7], ["Int", 1]]}
                    yield k + 1, prog, inputs, "%s/%s" % (spelling, place)


def typed_chains(max_arms=3):
    """If/ElseIf chains (builder syntax) with EVERY assignment of {statement, uint64 value} to the arms and
    {no Else, statement Else, value Else}: most of them are ill-typed and must be refused; whatever is accepted
    must keep the stack discipline.  Used as the value (Pop(chain)) when any arm is a value, else as a statement.
    yields (size, program recipe, inputs, label)"""
    import itertools
    for k in range(1, max_arms + 1):
        conds = [["Eq", ["Btoi", ["Arg", 0]], ["Int", i]] for i in range(k)]
        inputs = [{"args": [bytes([i]), b""]} for i in range(k + 2)]
        for kinds in itertools.product("nu", repeat=k):
            for els in (None, "n", "u"):
                arms = [["TickS", i + 1] if kd == "n" else ["Int", 5 + i] for i, kd in enumerate(kinds)]
                else_ = None if els is None else (["TickS", 7] if els == "n" else ["Int", 9])
                chain = ["IfChain", [[conds[i], arms[i]] for i in range(k)], else_]
                valued = "u" in kinds or els == "u"
                main = ["Seq", ["Pop", chain] if valued else chain, ["Int", 1]]
                yield k + 1, {"mode": "A", "vars": {}, "subs": {}, "main": main}, inputs, "chain-%s-%s" % ("".join(kinds), els)


def has_dead_code(body):
    """a statement follows Return/Approve/Reject/Break/Continue/Err in the same sequence"""
    for idx, s in enumerate(body):
        if s[0] in ("ret", "rej", "retv", "break", "cont", "err") and idx != len(body) - 1:
            return True
        for x in s[1:]:
            if isinstance(x, tuple) and x and isinstance(x[0], tuple) and has_dead_code(x):
                return True
    return False


def always_exits(body):
    """every path through the sequence ends in a return/err/break/continue (so what follows is dead)"""
    for s in body:
        if s[0] in ("ret", "rej", "retv", "break", "cont", "err"):
            return True
        if s[0] == "ifelse" and always_exits(s[2]) and always_exits(s[3]):
            return True
        if s[0] == "ifelif" and always_exits(s[2]) and always_exits(s[3]) and always_exits(s[4]):
            return True
        if s[0] == "cond2" and always_exits(s[2]) and always_exits(s[3]):
            return True
    return False


def has_unreachable(body, tail_follows=True):
    """conservative syntactic test: some statement (or the program tail) can never execute"""
    for idx, s in enumerate(body):
        last = idx == len(body) - 1
        rest_follows = (not last) or tail_follows
        if rest_follows and always_exits((s,)):
            return True
        if s[0] in ("if", "while"):
            subs = [s[2]]
        elif s[0] == "ifelse":
            subs = [s[2], s[3]]
        elif s[0] == "ifelif":
            subs = [s[2], s[3], s[4]]
        elif s[0] == "cond2":
            subs = [s[2], s[3]]
        elif s[0] == "for":
            subs = [s[1]]
        else:
            subs = []
        for b in subs:
            if has_unreachable(b, tail_follows=False):
                return True
    return False


def has_repeated_stmt(body):
    """some statement shape occurs at least twice in the recipe (then building it with shared Expr objects
    differs from building every occurrence afresh)"""
    seen = set()

    def walk(b):
        for s in b:
            if s in seen:
                return True
            seen.add(s)
            for x in s[1:]:
                if isinstance(x, tuple) and x and isinstance(x[0], tuple) and walk(x):
                    return True
        return False
    return walk(body)
