"""Expression drivers of C01.

E1: every operator applied to every tuple of leaves (boundary constants + inputs).
E2: every nesting (up to k operator nodes) of an order-revealing operator alphabet
    whose leaves are effectful ticks, so evaluation order and multiplicity are observable.
Yields (size, program_recipe, inputs, min_version).
"""
import itertools

from . import sem

U_LEAVES = [["Int", 0], ["Int", 1], ["Int", 2], ["Int", (1 << 64) - 1], ["Btoi", ["Arg", 0]]]
B_LEAVES = [["Bytes", ""], ["Bytes", "61"], ["Bytes", "ff" * 8], ["Arg", 1]]

LONG = bytes((i * 7 + 3) & 0xFF for i in range(600))
E_INPUTS = [
    {"args": [b"\x02", b"ab"]},
    {"args": [b"\xff" * 8, LONG]},
    {"args": [b"", b"\x80"]},
    {"args": [b"\x40", b"\x00\x01\x02\x03\x04\x05\x06\x07\x08\x09"]},
]


def wrap_value(e):
    return {"mode": "A", "vars": {}, "subs": {},
            "main": ["Seq", ["GPut", ["Bytes", "72"], e], ["Int", 1]]}


def _leaves(kind):
    if kind == "u":
        return [U_LEAVES]
    if kind == "b":
        return [B_LEAVES]
    return [U_LEAVES, B_LEAVES]


def e1_programs():
    for name, (kinds, _fn) in sem.PURE.items():
        if name in ("Eq", "Neq"):
            pools = [[U_LEAVES, U_LEAVES], [B_LEAVES, B_LEAVES]]
        else:
            pools = [list(p) for p in itertools.product(*[_leaves(k) for k in kinds])]
        for pool in pools:
            for args in itertools.product(*pool):
                yield 1, wrap_value([name] + [a for a in args]), E_INPUTS, 2
    for nary, base in sem.NARY.items():
        kinds = sem.PURE[base][0]
        lv = U_LEAVES if kinds[0] == "u" else B_LEAVES
        small = [lv[0], lv[1], lv[-1]]
        for n in (3, 4):
            for args in itertools.product(small, repeat=n):
                yield 1, wrap_value([nary] + list(args)), E_INPUTS, 2
    # substring family: constant and computed indices crossing the uint8 immediate boundary
    idx = [0, 1, 255, 256]

    def forms(v):
        return [["Int", v], ["Add", ["Int", v], ["Int", 0]]]
    src = ["Arg", 1]
    for a in idx:
        for b in idx:
            for fa in forms(a):
                for fb in forms(b):
                    yield 1, wrap_value(["Substring", src, fa, fb]), E_INPUTS, 2
                    yield 1, wrap_value(["Extract", src, fa, fb]), E_INPUTS, 2
        for fa in forms(a):
            yield 1, wrap_value(["Suffix", src, fa]), E_INPUTS, 2


# ------------------------------------------------------------------ E2
# operator alphabet: (name, result kind, child kinds)
E2_OPS = [
    ("Minus", "u", "uu"),
    ("Div", "u", "uu"),
    ("AddN", "u", "uuu"),
    ("Not", "u", "u"),
    ("Btoi", "u", "b"),
    ("IfV", "u", "uuu"),
    ("CondV", "u", "uuuu"),
    ("SeqV", "u", "u"),
    ("Concat", "b", "bb"),
    ("Substring", "b", "buu"),
    ("Itob", "b", "u"),
]


def _shapes(kind, nops):
    """all typed trees of result kind with exactly nops operator nodes; leaves are ('L', kind)"""
    if nops == 0:
        yield ("L", kind)
        return
    for name, rk, ck in E2_OPS:
        if rk != kind:
            continue
        for split in _splits(nops - 1, len(ck)):
            pools = [list(_shapes(k, n)) for k, n in zip(ck, split)]
            for kids in itertools.product(*pools):
                yield (name,) + kids


def _splits(total, parts):
    if parts == 1:
        yield (total,)
        return
    for first in range(total + 1):
        for rest in _splits(total - first, parts - 1):
            yield (first,) + rest


def _instantiate(shape, counter, values):
    if shape[0] == "L":
        i = counter[0]
        counter[0] += 1
        k = (i % 7) + 1
        if shape[1] == "u":
            return ["Tick", k, values(i)]
        return ["Seq", ["TickS", k], ["Bytes", bytes([0x61 + i % 20] * (i % 3 + 1)).hex()]]
    name = shape[0]
    kids = [_instantiate(s, counter, values) for s in shape[1:]]
    if name == "IfV":
        return ["If", kids[0], kids[1], kids[2]]
    if name == "CondV":
        return ["Cond", [[kids[0], kids[1]], [kids[2], kids[3]]]]
    if name == "SeqV":
        i = counter[0]
        counter[0] += 1
        return ["Seq", ["TickS", (i % 7) + 1], kids[0]]
    return [name] + kids


# ------------------------------------------------------------------ E3
# every ordered pair of binary operators of one kind, in both nestings op1(x, op2(y, z)) / op1(op2(x, y), z), over
# run-time operands from a boundary alphabet: regrouping, flattening or reordering of nested operators shows as a
# different failure / value (overflow, underflow, division by zero depend on the grouping)
E3_U_VALUES = [0, 1, 2, 1 << 32, 1 << 63, (1 << 64) - 1]
E3_B_VALUES = [b"", b"\x01", b"\xff" * 8, b"\xff" * 64]


def e3_programs():
    def binops(kind):
        out = []
        for name, (kinds, _fn) in sem.PURE.items():
            if tuple(kinds) == (kind, kind):
                out.append(name)
        return sorted(out)
    for kind, values, leaf in (("u", E3_U_VALUES, lambda i: ["Btoi", ["Arg", i]]), ("b", E3_B_VALUES, lambda i: ["Arg", i])):
        ops = binops(kind)
        enc = (lambda v: v.to_bytes(8, "big")) if kind == "u" else (lambda v: v)
        inputs = [{"args": [enc(a), enc(b), enc(c)]} for a in values for b in values for c in values]
        for o1 in ops:
            for o2 in ops:
                # the result kind of the inner operator must fit the outer operand kind
                try:
                    sample = sem.PURE[o2][1](*((1, 1) if kind == "u" else (b"\x01", b"\x01")))
                    rk2 = "b" if isinstance(sample, (bytes, bytearray)) else "u"
                except Exception:
                    rk2 = kind
                if rk2 != kind:
                    continue
                yield 2, wrap_value([o1, leaf(0), [o2, leaf(1), leaf(2)]]), inputs, 4
                yield 2, wrap_value([o1, [o2, leaf(0), leaf(1)], leaf(2)]), inputs, 4


VALUE_ASSIGNMENTS = [
    lambda i: 40 - 3 * i if 40 - 3 * i > 0 else 1,
    lambda i: (i + 1) % 2,
    lambda i: i % 2,
]

E2_INPUTS = [{"args": []}]


def e2_programs(max_ops):
    for nops in range(1, max_ops + 1):
        for kind in ("u", "b"):
            for shape in _shapes(kind, nops):
                for va in VALUE_ASSIGNMENTS:
                    e = _instantiate(shape, [0], va)
                    if kind == "u":
                        main = e  # value-typed top: the compiler appends the implicit Return
                        prog = {"mode": "A", "vars": {}, "subs": {}, "main": main}
                    else:
                        prog = {"mode": "A", "vars": {}, "subs": {},
                                "main": ["Seq", ["GPut", ["Bytes", "72"], e], ["Int", 1]]}
                    yield nops, prog, E2_INPUTS, 2
