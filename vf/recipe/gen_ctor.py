"""Constructor sweep for C04: every public expression constructor / field accessor
with minimal well-typed arguments; immediates at boundary values.

Each entry is (name, thunk) where thunk() builds a fresh Expr via the public API.
A case is identified by its name (replayable).
"""
import pyteal as pt

I = pt.Int
By = pt.Bytes
IMM = [0, 1, 15, 16, 255, 256]


def _b32():
    return By("base16", "00" * 32)


def entries():
    E = []

    def add(name, thunk):
        E.append((name, thunk))

    # --- transaction field accessors on every transaction-like object
    objs = {
        "Txn": lambda: pt.Txn,
        "Gtxn0": lambda: pt.Gtxn[0],
        "Gtxn15": lambda: pt.Gtxn[15],
        "GtxnE": lambda: pt.Gtxn[I(1) + I(0)],
        "InnerTxn": lambda: pt.InnerTxn,
        "Gitxn0": lambda: pt.Gitxn[0],
        "Gitxn15": lambda: pt.Gitxn[15],
    }
    scalar = ["sender", "fee", "first_valid", "first_valid_time", "last_valid", "note", "lease", "receiver", "amount",
              "close_remainder_to", "vote_pk", "selection_pk", "vote_first", "vote_last", "vote_key_dilution", "type",
              "type_enum", "xfer_asset", "asset_amount", "asset_sender", "asset_receiver", "asset_close_to",
              "group_index", "tx_id", "application_id", "on_completion", "approval_program", "clear_state_program",
              "rekey_to", "config_asset", "config_asset_total", "config_asset_decimals",
              "config_asset_default_frozen", "config_asset_unit_name", "config_asset_name", "config_asset_url",
              "config_asset_metadata_hash", "config_asset_manager", "config_asset_reserve", "config_asset_freeze",
              "config_asset_clawback", "freeze_asset", "freeze_asset_account", "freeze_asset_frozen",
              "global_num_uints", "global_num_byte_slices", "local_num_uints", "local_num_byte_slices",
              "extra_program_pages", "nonparticipation", "created_asset_id", "created_application_id", "last_log",
              "state_proof_pk"]
    arrays = ["application_args", "accounts", "assets", "applications", "logs", "approval_program_pages",
              "clear_state_program_pages"]
    for on, of in objs.items():
        for f in scalar:
            add("%s.%s" % (on, f), (lambda of=of, f=f: getattr(of(), f)()))
        for f in arrays:
            add("%s.%s.length" % (on, f), (lambda of=of, f=f: getattr(of(), f).length()))
            for k in IMM:
                add("%s.%s[%d]" % (on, f, k), (lambda of=of, f=f, k=k: getattr(of(), f)[k]))
            add("%s.%s[expr]" % (on, f), (lambda of=of, f=f: getattr(of(), f)[I(1) + I(0)]))
    for k in (16, 255, 256):
        add("Gtxn[%d].sender" % k, (lambda k=k: pt.Gtxn[k].sender()))
        add("Gitxn[%d].sender" % k, (lambda k=k: pt.Gitxn[k].sender()))
    # --- globals
    for f in ["min_txn_fee", "min_balance", "max_txn_life", "zero_address", "group_size", "logic_sig_version", "round",
              "latest_timestamp", "current_application_id", "creator_address", "current_application_address",
              "group_id", "opcode_budget", "caller_app_id", "caller_app_address", "asset_create_min_balance",
              "asset_opt_in_min_balance", "genesis_hash", "payouts_enabled", "payouts_go_online_fee",
              "payouts_percent", "payouts_min_balance", "payouts_max_balance"]:
        if hasattr(pt.Global, f):
            add("Global.%s" % f, (lambda f=f: getattr(pt.Global, f)()))
    # --- args
    for k in IMM:
        add("Arg(%d)" % k, (lambda k=k: pt.Arg(k)))
    add("Arg(expr)", lambda: pt.Arg(I(1) + I(0)))
    # --- app state
    add("App.id", lambda: pt.App.id())
    add("App.optedIn", lambda: pt.App.optedIn(I(0), I(0)))
    add("App.optedIn(addr)", lambda: pt.App.optedIn(_b32(), I(0)))
    add("App.localGet", lambda: pt.App.localGet(I(0), By("k")))
    add("App.localGetEx", lambda: pt.Seq(mv := pt.App.localGetEx(I(0), I(0), By("k")), mv.hasValue()))
    add("App.globalGet", lambda: pt.App.globalGet(By("k")))
    add("App.globalGetEx", lambda: pt.Seq(mv := pt.App.globalGetEx(I(0), By("k")), mv.value()))
    add("App.localPut", lambda: pt.App.localPut(I(0), By("k"), I(1)))
    add("App.globalPut", lambda: pt.App.globalPut(By("k"), I(1)))
    add("App.localDel", lambda: pt.App.localDel(I(0), By("k")))
    add("App.globalDel", lambda: pt.App.globalDel(By("k")))
    add("Balance", lambda: pt.Balance(I(0)))
    add("MinBalance", lambda: pt.MinBalance(I(0)))
    for cls, names in (
        (pt.AssetHolding, ["balance", "frozen"]),
    ):
        for n in names:
            add("AssetHolding.%s" % n, (lambda n=n: pt.Seq(mv := getattr(pt.AssetHolding, n)(I(0), I(1)), mv.value())))
    for n in ["total", "decimals", "defaultFrozen", "unitName", "name", "url", "metadataHash", "manager", "reserve",
              "freeze", "clawback", "creator"]:
        add("AssetParam.%s" % n, (lambda n=n: pt.Seq(mv := getattr(pt.AssetParam, n)(I(0)), mv.value())))
    for n in ["approvalProgram", "clearStateProgram", "globalNumUint", "globalNumByteSlice", "localNumUint",
              "localNumByteSlice", "extraProgramPages", "creator", "address"]:
        add("AppParam.%s" % n, (lambda n=n: pt.Seq(mv := getattr(pt.AppParam, n)(I(0)), mv.value())))
    for n in ["balance", "minBalance", "authAddr", "totalNumUint", "totalNumByteSlice", "totalExtraAppPages",
              "totalAppsCreated", "totalAppsOptedIn", "totalAssetsCreated", "totalAssets", "totalBoxes",
              "totalBoxBytes", "incentiveEligible", "lastProposed", "lastHeartbeat"]:
        if hasattr(pt.AccountParam, n):
            add("AccountParam.%s" % n, (lambda n=n: pt.Seq(mv := getattr(pt.AccountParam, n)(I(0)), mv.value())))
    for n in ["balance", "incentiveEligible"]:
        if hasattr(pt.VoterParam, n):
            add("VoterParam.%s" % n, (lambda n=n: pt.Seq(mv := getattr(pt.VoterParam, n)(I(0)), mv.value())))
    add("OnlineStake", lambda: pt.OnlineStake())
    # --- boxes
    add("BoxCreate", lambda: pt.BoxCreate(By("b"), I(8)))
    add("BoxDelete", lambda: pt.BoxDelete(By("b")))
    add("BoxExtract", lambda: pt.BoxExtract(By("b"), I(0), I(1)))
    add("BoxReplace", lambda: pt.BoxReplace(By("b"), I(0), By("x")))
    add("BoxLen", lambda: pt.Seq(mv := pt.BoxLen(By("b")), mv.value()))
    add("BoxGet", lambda: pt.Seq(mv := pt.BoxGet(By("b")), mv.value()))
    add("BoxPut", lambda: pt.BoxPut(By("b"), By("x")))
    add("BoxResize", lambda: pt.BoxResize(By("b"), I(8)))
    add("BoxSplice", lambda: pt.BoxSplice(By("b"), I(0), I(1), By("x")))
    # --- blocks, json, base64, crypto
    add("Block.seed", lambda: pt.Block.seed(I(1)))
    add("Block.timestamp", lambda: pt.Block.timestamp(I(1)))
    for n in ["proposer", "fees_collected", "bonus", "branch", "fee_sink", "protocol", "txn_counter", "proposer_payout"]:
        if hasattr(pt.Block, n):
            add("Block.%s" % n, (lambda n=n: getattr(pt.Block, n)(I(1))))
    add("JsonRef.as_string", lambda: pt.JsonRef.as_string(By("{}"), By("k")))
    add("JsonRef.as_uint64", lambda: pt.JsonRef.as_uint64(By("{}"), By("k")))
    add("JsonRef.as_object", lambda: pt.JsonRef.as_object(By("{}"), By("k")))
    add("Base64Decode.url", lambda: pt.Base64Decode.url(By("YQ")))
    add("Base64Decode.std", lambda: pt.Base64Decode.std(By("YQ==")))
    add("Sha256", lambda: pt.Sha256(By("a")))
    add("Sha512_256", lambda: pt.Sha512_256(By("a")))
    add("Sha3_256", lambda: pt.Sha3_256(By("a")))
    add("Keccak256", lambda: pt.Keccak256(By("a")))
    add("MiMC", lambda: pt.MiMC(pt.ast.MiMCConfigurations.BN254Mp110, By("a")) if hasattr(pt.ast, "MiMCConfigurations") else pt.Err())
    add("Ed25519Verify", lambda: pt.Ed25519Verify(By("d"), By("s"), By("k")))
    add("Ed25519Verify_Bare", lambda: pt.Ed25519Verify_Bare(By("d"), By("s"), By("k")))
    for curve in (pt.EcdsaCurve.Secp256k1, pt.EcdsaCurve.Secp256r1):
        add("EcdsaVerify.%s" % curve.name, (lambda c=curve: pt.EcdsaVerify(c, By("d"), By("r"), By("s"), (By("x"), By("y")))))
        add("EcdsaDecompress.%s" % curve.name, (lambda c=curve: pt.Seq(mv := pt.EcdsaDecompress(c, By("p")), mv.output_slots[0].load())))
        add("EcdsaRecover.%s" % curve.name, (lambda c=curve: pt.Seq(mv := pt.EcdsaRecover(c, By("d"), I(0), By("r"), By("s")), mv.output_slots[0].load())))
    add("VrfVerify", lambda: pt.Seq(mv := pt.VrfVerify.algorand(By("m"), By("p"), By("k")), mv.output_slots[0].load()))
    for g in pt.EllipticCurve:
        add("EcAdd.%s" % g.name, (lambda g=g: pt.EcAdd(g, By("a"), By("b"))))
        add("EcScalarMul.%s" % g.name, (lambda g=g: pt.EcScalarMul(g, By("a"), By("b"))))
        add("EcPairingCheck.%s" % g.name, (lambda g=g: pt.EcPairingCheck(g, By("a"), By("b"))))
        add("EcMultiScalarMul.%s" % g.name, (lambda g=g: pt.EcMultiScalarMul(g, By("a"), By("b"))))
        add("EcSubgroupCheck.%s" % g.name, (lambda g=g: pt.EcSubgroupCheck(g, By("a"))))
        add("EcMapTo.%s" % g.name, (lambda g=g: pt.EcMapTo(g, By("a"))))
    # --- arithmetic / bytes ops
    for n in ["Add", "Minus", "Mul", "Div", "Mod", "Exp", "BitwiseAnd", "BitwiseOr", "BitwiseXor", "ShiftLeft",
              "ShiftRight", "Lt", "Le", "Gt", "Ge", "Eq", "Neq", "And", "Or"]:
        add(n, (lambda n=n: getattr(pt, n)(I(1), I(2))))
    for n in ["BytesAdd", "BytesMinus", "BytesMul", "BytesDiv", "BytesMod", "BytesAnd", "BytesOr", "BytesXor",
              "BytesEq", "BytesNeq", "BytesLt", "BytesLe", "BytesGt", "BytesGe", "Concat"]:
        add(n, (lambda n=n: getattr(pt, n)(By("a"), By("b"))))
    for n in ["Not", "BitwiseNot", "Itob", "Sqrt", "BitLen", "BytesZero"]:
        add(n, (lambda n=n: getattr(pt, n)(I(4))))
    for n in ["Len", "Btoi", "BytesNot", "BytesSqrt"]:
        add(n, (lambda n=n: getattr(pt, n)(By("a"))))
    add("GetBit.int", lambda: pt.GetBit(I(1), I(0)))
    add("GetBit.bytes", lambda: pt.GetBit(By("a"), I(0)))
    add("SetBit", lambda: pt.SetBit(I(1), I(0), I(1)))
    add("GetByte", lambda: pt.GetByte(By("a"), I(0)))
    add("SetByte", lambda: pt.SetByte(By("a"), I(0), I(1)))
    add("Divw", lambda: pt.Divw(I(0), I(1), I(2)))
    add("WideRatio", lambda: pt.WideRatio([I(1), I(2)], [I(3)]))
    for k in (0, 1, 255, 256):
        add("ExtractUint16(%d)" % k, (lambda k=k: pt.ExtractUint16(By("abcdefgh"), I(k))))
        for l in (0, 1, 255, 256):
            add("Substring(%d,%d)" % (k, l), (lambda k=k, l=l: pt.Substring(By("abc"), I(k), I(l))))
            add("Extract(%d,%d)" % (k, l), (lambda k=k, l=l: pt.Extract(By("abc"), I(k), I(l))))
        add("Suffix(%d)" % k, (lambda k=k: pt.Suffix(By("abc"), I(k))))
        add("Replace(%d)" % k, (lambda k=k: pt.Replace(By("abc"), I(k), By("z"))))
    add("Substring(e,e)", lambda: pt.Substring(By("abc"), I(0) + I(0), I(1) + I(0)))
    add("Extract(e,e)", lambda: pt.Extract(By("abc"), I(0) + I(0), I(1) + I(0)))
    add("Suffix(e)", lambda: pt.Suffix(By("abc"), I(0) + I(0)))
    add("Replace(e)", lambda: pt.Replace(By("abc"), I(0) + I(0), By("z")))
    add("ExtractUint32", lambda: pt.ExtractUint32(By("abcdefgh"), I(0)))
    add("ExtractUint64", lambda: pt.ExtractUint64(By("abcdefgh"), I(0)))
    # --- scratch / gload
    for k in (0, 1, 255):
        add("Gload(%d,%d)" % (k % 16, k), (lambda k=k: pt.ImportScratchValue(k % 16, k)))
        add("Gload(e,%d)" % k, (lambda k=k: pt.ImportScratchValue(I(0) + I(0), k)))
        add("GeneratedID(%d)" % (k % 16), (lambda k=k: pt.GeneratedID(k % 16)))
    # immediates past their range in every argument form (literal / run-time transaction index x literal slot):
    # refused when built, or else the emitted text must still be legal
    for k in (256, 300, 1 << 16):
        add("Gload(0,%d)" % k, (lambda k=k: pt.ImportScratchValue(0, k)))
        add("Gload(e,%d)" % k, (lambda k=k: pt.ImportScratchValue(I(0) + I(0), k)))
    for t in (16, 17, 255, 256):
        add("Gload(%d,0)" % t, (lambda t=t: pt.ImportScratchValue(t, 0)))
        add("Gload(%d,e)" % t, (lambda t=t: pt.ImportScratchValue(t, I(0) + I(0))))
        add("GeneratedID(%d)" % t, (lambda t=t: pt.GeneratedID(t)))
    add("GeneratedID(e)", lambda: pt.GeneratedID(I(0) + I(0)))
    add("DynamicScratchVar", lambda: pt.Seq((d := pt.DynamicScratchVar()).set_index(v := pt.ScratchVar(pt.TealType.uint64, 7)),
                                             d.store(I(3)), d.load() + v.load()))
    add("ScratchVar.index", lambda: (pt.ScratchVar(pt.TealType.uint64, 9)).index())
    # --- control / misc
    add("Assert", lambda: pt.Assert(I(1)))
    add("Assert.comment", lambda: pt.Assert(I(1), comment="c"))
    add("Assert2", lambda: pt.Assert(I(1), I(2)))
    add("Log", lambda: pt.Log(By("a")))
    add("Comment", lambda: pt.Comment("hello", I(1)))
    add("Nonce", lambda: pt.Nonce("base16", "abcd", I(1)))
    add("Pragma", lambda: pt.Pragma(I(1), compiler_version=">=0.1.0"))
    add("Tmpl.Int", lambda: pt.Tmpl.Int("TMPL_X"))
    add("Tmpl.Bytes", lambda: pt.Tmpl.Bytes("TMPL_Y"))
    add("Tmpl.Addr", lambda: pt.Tmpl.Addr("TMPL_Z"))
    add("Addr", lambda: pt.Addr("AAAAAAAAAAAAAAAAAAAAAAAAAAAAAAAAAAAAAAAAAAAAAAAAAAAAY5HFKQ"))
    add("MethodSignature", lambda: pt.MethodSignature("add(uint64,uint64)uint64"))
    add("EnumInt", lambda: pt.OnComplete.OptIn)
    add("TxnType", lambda: pt.TxnType.Payment)
    add("While", lambda: pt.Seq(pt.While(I(0)).Do(pt.Seq()), I(1)))
    add("For", lambda: pt.Seq(pt.For(pt.Seq(), I(0), pt.Seq()).Do(pt.Seq()), I(1)))
    add("If", lambda: pt.If(I(1), I(1), I(2)))
    add("Cond", lambda: pt.Cond([I(1), I(1)], [I(0), I(2)]))
    add("OpUp.explicit", lambda: pt.Seq(pt.OpUp(pt.OpUpMode.Explicit, I(1)).ensure_budget(I(1000)), I(1)))
    add("OpUp.oncall", lambda: pt.Seq(pt.OpUp(pt.OpUpMode.OnCall).maximize_budget(I(1000)), I(1)))
    add("Subroutine", lambda: _sub()(I(1)))
    # call objects built by hand from a definition (legal, if unusual): their declared type must be the callee's
    add("SubroutineCall.plain", lambda: pt.SubroutineCall(_sub().subroutine, [I(1)]))
    add("SubroutineCall.none", lambda: pt.SubroutineCall(_sub_none().subroutine, [I(1)]))
    add("SubroutineCall.abi_output", lambda: pt.SubroutineCall(_abi_sub().subroutine, []))
    add("SubroutineCall.abi_output_arg", lambda: pt.SubroutineCall(_abi_sub1().subroutine, [_abi_u64()]))
    add("ABIReturnSubroutine.call", lambda: pt.Seq((r := pt.abi.Uint64()).set(_abi_sub()()), r.get()))
    add("ABIReturnSubroutine.void", lambda: _abi_void()())
    add("Subroutine.byref", lambda: pt.Seq((v := pt.ScratchVar(pt.TealType.uint64)).store(I(1)), _sub_byref()(v), v.load()))
    # --- inner transactions
    add("Itxn.pay", lambda: pt.Seq(pt.InnerTxnBuilder.Begin(), pt.InnerTxnBuilder.SetFields({
        pt.TxnField.type_enum: pt.TxnType.Payment, pt.TxnField.amount: I(1), pt.TxnField.receiver: pt.Txn.sender()}),
        pt.InnerTxnBuilder.Submit(), I(1)))
    add("Itxn.next", lambda: pt.Seq(pt.InnerTxnBuilder.Begin(), pt.InnerTxnBuilder.SetField(pt.TxnField.type_enum, pt.TxnType.Payment),
                                    pt.InnerTxnBuilder.Next(), pt.InnerTxnBuilder.SetField(pt.TxnField.type_enum, pt.TxnType.Payment),
                                    pt.InnerTxnBuilder.Submit(), I(1)))
    for f in pt.TxnField:
        add("Itxn.set.%s" % f.name, (lambda f=f: pt.Seq(pt.InnerTxnBuilder.Begin(), pt.InnerTxnBuilder.SetField(
            f, ([By("a")] if f.is_array and f.type_of() == pt.TealType.bytes else [I(1)] if f.is_array else
                (_b32() if f.type_of() == pt.TealType.bytes else I(1)))), pt.InnerTxnBuilder.Submit(), I(1))))
    return E


def _sub():
    @pt.Subroutine(pt.TealType.uint64)
    def ident(x):
        return x + I(1)
    return ident


def _sub_none():
    @pt.Subroutine(pt.TealType.none)
    def drop(x):
        return pt.Pop(x)
    return drop


def _sub_byref():
    @pt.Subroutine(pt.TealType.none)
    def bump(x: pt.ScratchVar):
        return x.store(x.load() + I(1))
    return bump


def _abi_sub():
    @pt.ABIReturnSubroutine
    def get7(*, output: pt.abi.Uint64) -> pt.Expr:
        return output.set(I(7))
    return get7


def _abi_sub1():
    @pt.ABIReturnSubroutine
    def inc(a: pt.abi.Uint64, *, output: pt.abi.Uint64) -> pt.Expr:
        return output.set(a.get() + I(1))
    return inc


def _abi_void():
    @pt.ABIReturnSubroutine
    def note() -> pt.Expr:
        return pt.Log(By("n"))
    return note


def _abi_u64():
    v = pt.abi.Uint64()
    return v


def wrap(e):
    """make a complete approving program out of a constructor's expression"""
    t = e.type_of()
    if t == pt.TealType.none:
        return pt.Seq(e, I(1))
    return pt.Seq(pt.Pop(e), I(1))


def confused(thunk, k, kind="other"):
    """build the entry with its k-th leaf (in construction order) replaced by a leaf of the OTHER stack type:
    an Int where a Bytes literal stood and the reverse (kind 'other'), or by an expression that yields NO value
    (kind 'none').  -> (expr, number of leaves seen); raises what the constructor raises"""
    global I, By
    cnt = [0]

    def I2(*a, **kw):
        i = cnt[0]
        cnt[0] += 1
        if i == k:
            return pt.Bytes("base16", "0x0102") if kind == "other" else pt.Pop(pt.Int(3))
        return pt.Int(*a, **kw)

    def By2(*a, **kw):
        i = cnt[0]
        cnt[0] += 1
        if i == k:
            return pt.Int(7) if kind == "other" else pt.Pop(pt.Int(3))
        return pt.Bytes(*a, **kw)
    old = (I, By)
    I, By = I2, By2
    try:
        e = thunk()
    finally:
        I, By = old
    return e, cnt[0]


def leaf_count(thunk):
    try:
        return confused(thunk, -1)[1]
    except Exception:
        return 0
