"""Control transfers INSIDE an operand.

Break / Continue / Return are statements (type none) and a Seq may end in a value, so
`Int(10) + Seq(Break(), Int(5))` is a well-typed uint64 expression: the transfer happens
while the sibling operands computed so far are pending on the stack.  The family crosses

  transfer   Break, Continue (While and For loops), Return(value)
  guard      unconditional / under If(input == 1)
  host       a + b, (a + b) + c, a - b, call two(a, b)   with the transfer in operand k
  placement  loop in the main routine, loop in a subroutine, Return in a subroutine,
             Return in the main routine

Every program records what it computes in global state, so the reference evaluator
defines the expected behaviour (a transfer simply abandons the expression).
"""

CIN = ["Eq", ["Btoi", ["Arg", 0]], ["Int", 1]]
N = ["Btoi", ["Arg", 0]]


def _I(n):
    return ["Int", n]


def _L(v):
    return ["Load", v]


HOSTS = {
    "add2": (2, lambda o: ["Add", o[0], o[1]]),
    "add3": (3, lambda o: ["Add", ["Add", o[0], o[1]], o[2]]),
    "minus2": (2, lambda o: ["Minus", o[0], o[1]]),
    "call2": (2, lambda o: ["Call", "two", o[0], o[1]]),
}

TWO = {"params": [["a", "val"], ["b", "val"]], "ret": "u",
       "body": ["Return", ["Add", ["Mul", _L("a"), _I(100)], _L("b")]], "locals": [], "init_locals": False}


def host_expr(host, k, xfer, guarded, cond=CIN):
    n, mk = HOSTS[host]
    ops = [_I(1000 * (i + 1)) for i in range(n)]
    stmt = ["If", cond, ["Seq", xfer]] if guarded else xfer
    ops[k] = ["Seq", stmt, _I(5)]
    return mk(ops)


def programs():
    out = []
    inputs = [{"args": [bytes([0])]}, {"args": [bytes([1])]}, {"args": [bytes([2])]}]
    for host, (n, _mk) in HOSTS.items():
        subs0 = {"two": TWO} if host == "call2" else {}
        for k in range(n):
            for guarded in (False, True):
                base_meta = {"host": host, "pending": k, "guarded": guarded}
                # --- Break / Continue in a loop
                for xname, xfer in (("break", ["Break"]), ("continue", ["Continue"])):
                    for loop in ("while", "for"):
                        for placement in ("main", "sub"):
                            e = host_expr(host, k, xfer, guarded, cond=CIN if placement == "main" else ["Eq", _L("n"), _I(1)])
                            # the value goes through a variable first: nothing but the host's own operands is pending
                            rec = ["Seq", ["Store", "t", e], ["GPut", ["Bytes", "72"], _L("t")]]
                            if loop == "while":
                                lp = ["While", ["Lt", _L("c"), _I(3)],
                                      ["Seq", ["Store", "c", ["Add", _L("c"), _I(1)]], ["TickS", 1], rec, ["TickS", 2]]]
                                pre = [["Store", "c", _I(0)]]
                            else:
                                lp = ["For", ["Store", "c", _I(0)], ["Lt", _L("c"), _I(3)], ["Store", "c", ["Add", _L("c"), _I(1)]],
                                      ["Seq", ["TickS", 1], rec, ["TickS", 2]]]
                                pre = []
                            meta = dict(base_meta, transfer=xname, loop=loop, placement=placement)
                            if placement == "main":
                                main = ["Seq"] + pre + [lp, ["GPut", ["Bytes", "73"], _L("c")], _I(1)]
                                prog = {"mode": "A", "vars": {"c": "u", "t": "u"}, "subs": dict(subs0), "main": main}
                            else:
                                body = ["Seq"] + pre + [lp, ["Return", ["Add", _L("c"), _L("n")]]]
                                subs = dict(subs0)
                                subs["f"] = {"params": [["n", "val"]], "ret": "u", "body": body, "locals": ["c", "t"], "init_locals": False}
                                main = ["Seq", ["GPut", ["Bytes", "74"], ["Minus", ["Add", _I(40), ["Call", "f", N]], ["Tick", 3, 7]]], _I(1)]
                                prog = {"mode": "A", "vars": {}, "subs": subs, "main": main}
                            out.append((4 + n, prog, inputs, meta))
                # --- Return(value) inside an operand of the returned expression, in a subroutine
                e = host_expr(host, k, ["Return", _I(5)], guarded, cond=["Eq", _L("n"), _I(1)])
                subs = dict(subs0)
                subs["f"] = {"params": [["n", "val"]], "ret": "u", "body": ["Seq", ["TickS", 1], ["Return", e]],
                             "locals": [], "init_locals": False}
                main = ["Seq", ["GPut", ["Bytes", "74"], ["Minus", ["Add", _I(40), ["Call", "f", N]], ["Tick", 3, 7]]], _I(1)]
                out.append((3 + n, {"mode": "A", "vars": {}, "subs": subs, "main": main}, inputs,
                            dict(base_meta, transfer="return", loop=None, placement="sub")))
                # --- the same in the main routine (the program's verdict is the returned value)
                e = host_expr(host, k, ["Return", _I(1)], guarded)
                main = ["Seq", ["TickS", 1], ["Return", e]]
                out.append((3 + n, {"mode": "A", "vars": {}, "subs": dict(subs0), "main": main}, inputs,
                            dict(base_meta, transfer="return", loop=None, placement="main")))
    return out
