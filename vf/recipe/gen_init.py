"""C17: all placements of stores and loads of 1-2 routine-local variables over all
control-flow shapes up to a node bound, and the independent definite-initialisation
oracle (explicit-state search over the recipe's syntactic CFG: states = (position, set of
definitely stored variables))."""

ATOMS = ["Sa", "La", "Sb", "Lb", "tick", "break", "cont", "ret"]
CONDS = ["c1", "cin", "cLa"]


class Grammar:
    def __init__(self, atoms=ATOMS, conds=CONDS):
        self.atoms, self.conds = atoms, conds
        self.memo = {}

    def stmts(self, n, inloop):
        key = ("s", n, inloop)
        if key in self.memo:
            return self.memo[key]
        out = []
        if n == 1:
            for a in self.atoms:
                if a in ("break", "cont") and not inloop:
                    continue
                out.append((a,))
        else:
            for c in self.conds:
                for b in self.bodies(n - 1, inloop):
                    out.append(("if", c, b))
                for a in range(1, n - 1):
                    for b1 in self.bodies(a, inloop):
                        for b2 in self.bodies(n - 1 - a, inloop):
                            out.append(("ifelse", c, b1, b2))
                            out.append(("cond2", c, b1, b2))
                for b in self.bodies(n - 1, True):
                    out.append(("while", c, b))
            for b in self.bodies(n - 1, True):
                out.append(("for", b))
        self.memo[key] = out
        return out

    def bodies(self, n, inloop):
        key = ("b", n, inloop)
        if key in self.memo:
            return self.memo[key]
        out = []
        if n == 0:
            out.append(())
        else:
            for a in range(1, n + 1):
                for s in self.stmts(a, inloop):
                    for rest in self.bodies(n - a, inloop):
                        out.append((s,) + rest)
        self.memo[key] = out
        return out

    def programs(self, maxn):
        for n in range(1, maxn + 1):
            for b in self.bodies(n, False):
                yield n, b


def uses_var(body):
    s = str(body)
    return ("'La'" in s) or ("'Lb'" in s) or ("'cLa'" in s)


def _always_exits(s):
    k = s[0]
    if k in ("ret", "break", "cont"):
        return True
    if k in ("ifelse", "cond2"):
        return _always_exits_seq(s[2]) and _always_exits_seq(s[3])
    return False


def _always_exits_seq(body):
    return any(_always_exits(s) for s in body)


def has_dead_code(body):
    """a statement that follows one which always leaves (Return / Break / Continue, or a two-armed conditional both
    of whose arms leave)"""
    for i, s in enumerate(body):
        if _always_exits(s) and i < len(body) - 1:
            return True
        k = s[0]
        subs = {"if": [s[2]] if k == "if" else [], "ifelse": [s[2], s[3]] if k == "ifelse" else [],
                "cond2": [s[2], s[3]] if k == "cond2" else [], "while": [s[2]] if k == "while" else [],
                "for": [s[1]] if k == "for" else []}.get(k, [])
        if any(has_dead_code(b) for b in subs):
            return True
    return False


# ------------------------------------------------------------------ recipe terms
def cond_term(c):
    if c == "c1":
        return ["Int", 1]
    if c == "cin":
        return ["Eq", ["Btoi", ["Arg", 0]], ["Int", 1]]
    if c == "cLa":
        return ["Load", "a"]
    raise AssertionError(c)


def stmt_term(s, in_sub):
    k = s[0]
    if k == "Sa":
        return ["Store", "a", ["Int", 1]]
    if k == "Sb":
        return ["Store", "b", ["Int", 1]]
    if k == "La":
        return ["Pop", ["Load", "a"]]
    if k == "Lb":
        return ["Pop", ["Load", "b"]]
    if k == "Ia":
        # the variable's slot INDEX is taken (DynamicScratchVar.set_index): neither a store nor a load of it
        return ["DynIndex", "a"]
    if k == "tick":
        return ["TickS", 1]
    if k == "break":
        return ["Break"]
    if k == "cont":
        return ["Continue"]
    if k == "ret":
        return ["Return"] if in_sub else ["Approve"]
    if k == "if":
        return ["If", cond_term(s[1]), seq_term(s[2], in_sub)]
    if k == "ifelse":
        return ["If", cond_term(s[1]), seq_term(s[2], in_sub), seq_term(s[3], in_sub)]
    if k == "cond2":
        return ["Cond", [[cond_term(s[1]), seq_term(s[2], in_sub)], [["Int", 1], seq_term(s[3], in_sub)]]]
    if k == "while":
        return ["While", cond_term(s[1]), seq_term(s[2], in_sub)]
    if k == "for":
        return ["For", ["Store", "i", ["Int", 0]], ["Lt", ["Load", "i"], ["Int", 2]],
                ["Store", "i", ["Add", ["Load", "i"], ["Int", 1]]], seq_term(s[1], in_sub)]
    raise AssertionError(k)


def seq_term(body, in_sub):
    return ["Seq"] + [stmt_term(s, in_sub) for s in body]


def _bytesify(t):
    if not isinstance(t, list):
        return t
    if t[0] == "Store" and t[1] in ("a", "b"):
        return ["Store", t[1], ["Bytes", "41"]]
    if t[0] == "Pop" and t[1][0] == "Load" and t[1][1] in ("a", "b"):
        return ["Pop", ["Concat", t[1], ["Bytes", "41"]]]      # (concat exists at every version)
    return [_bytesify(x) for x in t]


def make_program(body, placement, varkind="auto"):
    """placement: 'main' | 'sub' ; varkind: 'auto' | 'reserved' | 'abi' (abi.Uint64 set/get) | 'raw' (bare
    ScratchSlot through ScratchStore/ScratchLoad)"""
    va = ["u", 11] if varkind == "reserved" else "u"
    vb = ["u", 12] if varkind == "reserved" else "u"
    if varkind in ("abi", "raw"):
        va = vb = varkind
    fix = (lambda t: t)
    if varkind == "bytes":
        # byte-string variables, stored from a literal and consumed by an opcode that needs bytes (an unset slot
        # holds the integer 0: reading it there is a run-time type error)
        va = vb = "b"
        fix = _bytesify
    if placement == "main":
        main = ["Seq"] + [fix(stmt_term(s, False)) for s in body] + [["Int", 1]]
        return {"mode": "A", "vars": {"a": va, "b": vb, "i": "u"}, "subs": {}, "main": main}
    sub = {"params": [], "ret": "none", "body": fix(seq_term(body, True)), "locals": ["a", "b", "i"], "init_locals": False,
           "local_types": {}}
    if varkind == "bytes":
        sub["local_types"] = {"a": "b", "b": "b"}
    if varkind == "reserved":
        sub["local_slots"] = {"a": 11, "b": 12}
    if varkind in ("abi", "raw"):
        sub["local_types"] = {"a": varkind, "b": varkind}
    return {"mode": "A", "vars": {}, "subs": {"f": sub}, "main": ["Seq", ["Call", "f"], ["Int", 1]]}


# ------------------------------------------------------------------ oracle
class _Uninit(Exception):
    pass


def uninit_vars(body, lenient=False):
    """explicit-state search: returns the set of variables for which some syntactic path reaches a load
    before any store (empty set = definitely initialised everywhere), and the number of states visited.
    lenient=True also walks code that follows Return/Break/Continue in the same sequence (PyTeal merges such
    dead code into the preceding block and may name one of ITS loads first)."""
    bad = set()
    visited = [0]

    def load(v, states):
        for st in states:
            visited[0] += 1
            if v not in st:
                bad.add(v)

    def cond(c, states):
        if c == "cLa":
            load("a", states)
        return states

    def seq(b, states):
        brk, cnt = set(), set()
        for s in b:
            if not states:
                break
            states, b2, c2 = stmt(s, states)
            brk |= b2
            cnt |= c2
        return states, brk, cnt

    def stmt(s, states):
        k = s[0]
        visited[0] += len(states)
        if k in ("Sa", "Sb"):
            v = k[1].lower()
            return {st | {v} for st in states}, set(), set()
        if k in ("La", "Lb"):
            load(k[1].lower(), states)
            return states, set(), set()
        if k in ("tick", "Ia"):
            return states, set(), set()
        if k == "break":
            return (set(states) if lenient else set()), set(states), set()
        if k == "cont":
            return (set(states) if lenient else set()), set(), set(states)
        if k == "ret":
            return (set(states) if lenient else set()), set(), set()
        if k == "if":
            s0 = cond(s[1], states)
            n, b, c = seq(s[2], s0)
            return n | s0, b, c
        if k in ("ifelse", "cond2"):
            s0 = cond(s[1], states)
            n1, b1, c1 = seq(s[2], s0)
            n2, b2, c2 = seq(s[3], s0)
            return n1 | n2, b1 | b2, c1 | c2
        if k == "while":
            head = set(states)
            exits = set()
            while True:
                s0 = cond(s[1], head)
                n, b, c = seq(s[2], s0)
                exits |= s0 | b
                new = head | n | c
                if new == head:
                    break
                head = new
            return exits, set(), set()
        if k == "for":
            head = set(states)  # the For counter is always initialised by its init statement
            exits = set()
            while True:
                n, b, c = seq(s[1], head)
                exits |= head | b
                new = head | n | c
                if new == head:
                    break
                head = new
            return exits, set(), set()
        raise AssertionError(k)

    seq(body, {frozenset()})
    return bad, visited[0]
