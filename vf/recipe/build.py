"""Recipe -> PyTeal Expr through the real public constructors."""
import pyteal as pt

JOURNAL_SLOT = 250


class Cfg:
    """One compile configuration."""

    __slots__ = ("version", "mode", "scratch_slots", "frame_pointers", "assemble_constants")

    def __init__(self, version, mode="A", scratch_slots=None, frame_pointers=None, assemble_constants=False):
        self.version, self.mode = version, mode
        self.scratch_slots, self.frame_pointers = scratch_slots, frame_pointers
        self.assemble_constants = assemble_constants

    def optimize(self):
        if self.scratch_slots is None and self.frame_pointers is None:
            return None
        kw = {}
        if self.scratch_slots is not None:
            kw["scratch_slots"] = self.scratch_slots
        if self.frame_pointers is not None:
            kw["frame_pointers"] = self.frame_pointers
        return pt.OptimizeOptions(**kw)

    def pt_mode(self):
        return pt.Mode.Application if self.mode == "A" else pt.Mode.Signature

    def key(self):
        return (self.version, self.mode, self.scratch_slots, self.frame_pointers, self.assemble_constants)

    def to_json(self):
        return {"version": self.version, "mode": self.mode, "scratch_slots": self.scratch_slots,
                "frame_pointers": self.frame_pointers, "assemble_constants": self.assemble_constants}

    @classmethod
    def from_json(cls, d):
        return cls(d["version"], d.get("mode", "A"), d.get("scratch_slots"), d.get("frame_pointers"),
                   d.get("assemble_constants", False))

    def uses_frame_pointers(self):
        if self.frame_pointers is None:
            return self.version >= 8
        return self.frame_pointers

    def __repr__(self):
        return "Cfg(v%d,%s,ss=%s,fp=%s%s)" % (self.version, self.mode, self.scratch_slots, self.frame_pointers,
                                               ",asm" if self.assemble_constants else "")


def compile_cfg(expr, cfg):
    return pt.compileTeal(expr, cfg.pt_mode(), version=cfg.version, assembleConstants=cfg.assemble_constants,
                          optimize=cfg.optimize())


BIN = {
    "Add": pt.Add, "Minus": pt.Minus, "Mul": pt.Mul, "Div": pt.Div, "Mod": pt.Mod, "Exp": pt.Exp,
    "BitwiseAnd": pt.BitwiseAnd, "BitwiseOr": pt.BitwiseOr, "BitwiseXor": pt.BitwiseXor,
    "ShiftLeft": pt.ShiftLeft, "ShiftRight": pt.ShiftRight, "Eq": pt.Eq, "Neq": pt.Neq, "Lt": pt.Lt, "Le": pt.Le,
    "Gt": pt.Gt, "Ge": pt.Ge, "And": pt.And, "Or": pt.Or, "GetBit": pt.GetBit, "GetByte": pt.GetByte,
    "BytesAdd": pt.BytesAdd, "BytesMinus": pt.BytesMinus, "BytesMul": pt.BytesMul, "BytesDiv": pt.BytesDiv,
    "BytesMod": pt.BytesMod, "BytesAnd": pt.BytesAnd, "BytesOr": pt.BytesOr, "BytesXor": pt.BytesXor,
    "BytesEq": pt.BytesEq, "BytesNeq": pt.BytesNeq, "BytesLt": pt.BytesLt, "BytesLe": pt.BytesLe,
    "BytesGt": pt.BytesGt, "BytesGe": pt.BytesGe, "ExtractUint16": pt.ExtractUint16,
    "ExtractUint32": pt.ExtractUint32, "ExtractUint64": pt.ExtractUint64, "Concat": pt.Concat,
    "Not": pt.Not, "BitwiseNot": pt.BitwiseNot, "Len": pt.Len, "Itob": pt.Itob, "Btoi": pt.Btoi, "Sqrt": pt.Sqrt,
    "BitLen": pt.BitLen, "Sha256": pt.Sha256, "Sha512_256": pt.Sha512_256, "BytesNot": pt.BytesNot,
    "BytesSqrt": pt.BytesSqrt, "BytesZero": pt.BytesZero,
    "Divw": pt.Divw, "Replace": pt.Replace, "Sha3_256": pt.Sha3_256,
    "Substring": pt.Substring, "Extract": pt.Extract, "Suffix": pt.Suffix, "SetBit": pt.SetBit, "SetByte": pt.SetByte,
    "AndN": pt.And, "OrN": pt.Or, "AddN": pt.Add, "MulN": pt.Mul, "ConcatN": pt.Concat,
}

TXN_ACCESS = {
    "Sender": lambda: pt.Txn.sender(), "Fee": lambda: pt.Txn.fee(), "FirstValid": lambda: pt.Txn.first_valid(),
    "LastValid": lambda: pt.Txn.last_valid(), "Note": lambda: pt.Txn.note(), "Receiver": lambda: pt.Txn.receiver(),
    "Amount": lambda: pt.Txn.amount(), "TypeEnum": lambda: pt.Txn.type_enum(), "Type": lambda: pt.Txn.type(),
    "GroupIndex": lambda: pt.Txn.group_index(), "ApplicationID": lambda: pt.Txn.application_id(),
    "OnCompletion": lambda: pt.Txn.on_completion(), "NumAppArgs": lambda: pt.Txn.application_args.length(),
    "NumAccounts": lambda: pt.Txn.accounts.length(), "RekeyTo": lambda: pt.Txn.rekey_to(),
    "XferAsset": lambda: pt.Txn.xfer_asset(), "AssetAmount": lambda: pt.Txn.asset_amount(),
    "Lease": lambda: pt.Txn.lease(), "CloseRemainderTo": lambda: pt.Txn.close_remainder_to(),
}

OBJ_ACCESS = {
    "Sender": lambda o: o.sender(), "Fee": lambda o: o.fee(), "Amount": lambda o: o.amount(),
    "Receiver": lambda o: o.receiver(), "TypeEnum": lambda o: o.type_enum(), "Note": lambda o: o.note(),
    "XferAsset": lambda o: o.xfer_asset(), "AssetAmount": lambda o: o.asset_amount(),
    "ApplicationID": lambda o: o.application_id(), "OnCompletion": lambda o: o.on_completion(),
    "GroupIndex": lambda o: o.group_index(),
}

GLOBAL_ACCESS = {
    "MinTxnFee": pt.Global.min_txn_fee, "MinBalance": pt.Global.min_balance, "MaxTxnLife": pt.Global.max_txn_life,
    "ZeroAddress": pt.Global.zero_address, "GroupSize": pt.Global.group_size,
    "LogicSigVersion": pt.Global.logic_sig_version, "Round": pt.Global.round,
    "LatestTimestamp": pt.Global.latest_timestamp, "CurrentApplicationID": pt.Global.current_application_id,
    "CreatorAddress": pt.Global.creator_address, "CurrentApplicationAddress": pt.Global.current_application_address,
    "GroupID": pt.Global.group_id, "OpcodeBudget": pt.Global.opcode_budget,
    "CallerApplicationID": pt.Global.caller_app_id, "CallerApplicationAddress": pt.Global.caller_app_address,
}


class _AbiVar:
    """a uint64 variable held in an ABI value (abi.Uint64): set()/get() instead of store()/load()"""

    def __init__(self):
        self.inst = pt.abi.Uint64()
        # None: the value lives in the frame of a version 8+ subroutine, not in a scratch slot
        self.slot = getattr(self.inst._stored_value, "slot", None)

    def store(self, e):
        return self.inst.set(e)

    def load(self):
        return self.inst.get()


class _RawSlotVar:
    """a uint64 variable held in a bare ScratchSlot used through ScratchStore / ScratchLoad"""

    def __init__(self):
        self.slot = pt.ScratchSlot()

    def store(self, e):
        return pt.ScratchStore(self.slot, e)

    def load(self):
        return pt.ScratchLoad(self.slot, pt.TealType.uint64)


class Builder:
    def __init__(self, prog, cfg, tickmode="log", share=False):
        self.prog = prog
        self.cfg = cfg
        self.tickmode = tickmode
        self.share = share or bool(prog.get("share"))
        self._shared = {}
        self.vars = {}
        self.subs = {}
        self.journal = None
        self.local_vars = {}
        for name, ty in prog.get("vars", {}).items():
            self.vars[name] = self.mkvar(ty)
        self.scopes = [self.vars]

    def mkvar(self, ty):
        if ty == "abi":
            return _AbiVar()
        if ty == "raw":
            return _RawSlotVar()
        if isinstance(ty, (list, tuple)):
            ty, slot = ty
            return pt.ScratchVar(pt.TealType.uint64 if ty == "u" else pt.TealType.bytes, slot)
        return pt.ScratchVar(pt.TealType.uint64 if ty == "u" else pt.TealType.bytes)

    def var(self, name):
        for sc in reversed(self.scopes):
            if name in sc:
                return sc[name]
        raise KeyError(name)

    def tick_effect(self, k):
        if self.tickmode == "log":
            return pt.Log(pt.Bytes(bytes([k])))
        if self.tickmode == "gput":
            return pt.App.globalPut(pt.Bytes("t"), pt.Int(k))
        if self.tickmode == "journal":
            if self.journal is None:
                self.journal = pt.ScratchVar(pt.TealType.uint64, JOURNAL_SLOT)
            j = self.journal
            return j.store(j.load() * pt.Int(8) + pt.Int(k))
        raise AssertionError(self.tickmode)

    def main(self):
        for name in self.prog.get("subs", {}):
            self.declare_sub(name)
        body = self.b(self.prog["main"])
        if self.tickmode == "journal":
            if self.journal is None:
                self.journal = pt.ScratchVar(pt.TealType.uint64, JOURNAL_SLOT)
            body = pt.Seq(self.journal.store(pt.Int(0)), body)
        return body

    # ------------------------------------------------------------------
    def declare_sub(self, name):
        sd = self.prog["subs"][name]
        params = sd["params"]
        rett = {"none": pt.TealType.none, "u": pt.TealType.uint64, "b": pt.TealType.bytes}[sd["ret"]]
        builder = self

        def impl(*args):
            scope = {}
            for (pn, kind), a in zip(params, args):
                scope[pn] = a
            for ln_ in sd.get("locals", []):
                lty = sd.get("local_types", {}).get(ln_, "u")
                if ln_ in sd.get("local_slots", {}):
                    lty = [lty, sd["local_slots"][ln_]]
                scope[ln_] = builder.mkvar(lty)
                builder.local_vars.setdefault((name, ln_), []).append(scope[ln_])
            builder.scopes.append(scope)
            try:
                inits = [scope[l].store(pt.Int(0) if sd.get("local_types", {}).get(l, "u") == "u" else pt.Bytes(""))
                         for l in sd.get("locals", [])] if sd.get("init_locals", True) else []
                body = builder.b(sd["body"])
                if inits:
                    return pt.Seq(*inits, body)
                return body
            finally:
                builder.scopes.pop()

        # build a function with the right signature and annotations
        names = [pn for pn, _k in params]
        ann = {}
        for pn, kind in params:
            ann[pn] = pt.ScratchVar if kind == "ref" else pt.Expr
        src = "def %s(%s):\n    return __impl(%s)\n" % (
            sd.get("pyname", name), ", ".join(names), ", ".join(names))
        ns = {"__impl": impl}
        exec(src, ns)
        fn = ns[sd.get("pyname", name)]
        fn.__annotations__ = dict(ann)
        kw = {}
        if sd.get("label") is not None:
            kw["name"] = sd["label"]
        self.subs[name] = pt.Subroutine(rett, **kw)(fn)

    # ------------------------------------------------------------------
    def b(self, t):
        if self.share:
            # "share" mode: textually equal terms of one scope are built ONCE and the same Expr object is
            # used at every occurrence (as a user does with `bump = i.store(...); If(c).Then(bump).Else(bump)`)
            key = (id(self.scopes[-1]), repr(t))
            e = self._shared.get(key)
            if e is None:
                e = self._build(t)
                self._shared[key] = e
            return e
        return self._build(t)

    def _build(self, t):
        k = t[0]
        m = getattr(self, "b_" + k, None)
        if m is not None:
            return m(t)
        ctor = BIN.get(k)
        if ctor is not None:
            return ctor(*[self.b(x) for x in t[1:]])
        raise AssertionError("unknown term %r" % (k,))

    def b_Int(self, t):
        return pt.Int(t[1])

    def b_Bytes(self, t):
        v = t[1]
        return pt.Bytes(bytes.fromhex(v) if isinstance(v, str) else v)

    def b_Arg(self, t):
        if self.cfg.mode == "A":
            return pt.Txn.application_args[t[1]]
        return pt.Arg(t[1])

    def b_Tick(self, t):
        return pt.Seq(self.tick_effect(t[1]), pt.Int(t[2] if len(t) > 2 else t[1]))

    def b_TickS(self, t):
        return self.tick_effect(t[1])

    def b_Load(self, t):
        v = self.var(t[1])
        if isinstance(v, (pt.ScratchVar, _AbiVar, _RawSlotVar)):
            return v.load()
        return v  # by-value parameter Expr

    def b_DynLoad(self, t):
        d = pt.DynamicScratchVar(pt.TealType.uint64)
        return pt.Seq(d.set_index(self.var(t[1])), d.load())

    def b_DynIndex(self, t):
        d = pt.DynamicScratchVar(pt.TealType.uint64)
        return d.set_index(self.var(t[1]))

    def b_TxnField(self, t):
        return TXN_ACCESS[t[1]]()

    def b_GtxnField(self, t):
        idx = t[1] if isinstance(t[1], int) else self.b(t[1])
        return OBJ_ACCESS[t[2]](pt.Gtxn[idx])

    def b_TxnArr(self, t):
        idx = t[2] if isinstance(t[2], int) else self.b(t[2])
        arr = {"ApplicationArgs": pt.Txn.application_args, "Accounts": pt.Txn.accounts, "Assets": pt.Txn.assets,
               "Applications": pt.Txn.applications}[t[1]]
        return arr[idx]

    def b_GlobalField(self, t):
        return GLOBAL_ACCESS[t[1]]()

    def b_GlobalGet(self, t):
        return pt.App.globalGet(self.b(t[1]))

    def b_GlobalGetExHas(self, t):
        mv = pt.App.globalGetEx(pt.Int(0), self.b(t[1]))
        return pt.Seq(mv, mv.hasValue())

    def b_GlobalGetExVal(self, t):
        mv = pt.App.globalGetEx(pt.Int(0), self.b(t[1]))
        return pt.Seq(mv, mv.value())

    def b_LPut(self, t):
        return pt.App.localPut(pt.Int(0), self.b(t[1]), self.b(t[2]))

    def b_LGet(self, t):
        return pt.App.localGet(pt.Int(0), self.b(t[1]))

    def b_LDel(self, t):
        return pt.App.localDel(pt.Int(0), self.b(t[1]))

    def b_Itxn(self, t):
        style = t[1]
        fmap = {f.arg_name: f for f in pt.TxnField}
        steps = []
        groups = t[2]

        def val(f, e):
            if f in ("ApplicationArgs", "Accounts", "Assets", "Applications"):
                return [self.b(x) for x in e]
            return self.b(e)
        if style == "execute" and len(groups) == 1:
            return pt.InnerTxnBuilder.Execute({fmap[f]: val(f, e) for f, e in groups[0]})
        steps.append(pt.InnerTxnBuilder.Begin())
        for gi, fields in enumerate(groups):
            if gi:
                steps.append(pt.InnerTxnBuilder.Next())
            if style == "setfield":
                for f, e in fields:
                    steps.append(pt.InnerTxnBuilder.SetField(fmap[f], val(f, e)))
            else:
                steps.append(pt.InnerTxnBuilder.SetFields({fmap[f]: val(f, e) for f, e in fields}))
        steps.append(pt.InnerTxnBuilder.Submit())
        return pt.Seq(*steps)

    def b_Store(self, t):
        return self.var(t[1]).store(self.b(t[2]))

    def b_Log(self, t):
        return pt.Log(self.b(t[1]))

    def b_GPut(self, t):
        return pt.App.globalPut(self.b(t[1]), self.b(t[2]))

    def b_GDel(self, t):
        return pt.App.globalDel(self.b(t[1]))

    def b_Pop(self, t):
        return pt.Pop(self.b(t[1]))

    def b_Comment(self, t):
        return pt.Comment(t[1], self.b(t[2]))

    def b_CommentS(self, t):
        # a Comment used as a statement of its own
        return pt.Comment(t[1])

    def b_Pragma(self, t):
        return pt.Pragma(self.b(t[1]), compiler_version=">=0.1.0")

    def b_Nonce(self, t):
        return pt.Nonce(t[1], t[2], self.b(t[3]))

    def b_AssertC(self, t):
        return pt.Assert(*[self.b(c) for c in t[2:]], comment=t[1])

    def b_Assert(self, t):
        return pt.Assert(*[self.b(c) for c in t[1:]])

    def b_Seq(self, t):
        return pt.Seq(*[self.b(s) for s in t[1:]])

    def b_If(self, t):
        if len(t) > 3 and t[3] is not None:
            return pt.If(self.b(t[1])).Then(self.b(t[2])).Else(self.b(t[3]))
        return pt.If(self.b(t[1])).Then(self.b(t[2]))

    def b_IfChain(self, t):
        arms = t[1]
        e = pt.If(self.b(arms[0][0])).Then(self.b(arms[0][1]))
        for c, s in arms[1:]:
            e = e.ElseIf(self.b(c)).Then(self.b(s))
        if t[2] is not None:
            e = e.Else(self.b(t[2]))
        return e

    def b_Cond(self, t):
        return pt.Cond(*[[self.b(c), self.b(s)] for c, s in t[1]])

    def b_While(self, t):
        return pt.While(self.b(t[1])).Do(self.b(t[2]))

    def b_For(self, t):
        return pt.For(self.b(t[1]), self.b(t[2]), self.b(t[3])).Do(self.b(t[4]))

    def b_Break(self, t):
        return pt.Break()

    def b_Continue(self, t):
        return pt.Continue()

    def b_Err(self, t):
        return pt.Err()

    def b_Approve(self, t):
        return pt.Approve()

    def b_Reject(self, t):
        return pt.Reject()

    def b_Return(self, t):
        if len(t) > 1 and t[1] is not None:
            return pt.Return(self.b(t[1]))
        return pt.Return()

    def b_Exit(self, t):
        # main-routine return of a computed value
        return pt.Return(self.b(t[1]))

    def b_Call(self, t):
        sub = self.subs[t[1]]
        args = []
        for a in t[2:]:
            if a[0] == "Ref":
                args.append(self.var(a[1]))
            else:
                args.append(self.b(a))
        return sub(*args)


def build(prog, cfg, tickmode="log"):
    return Builder(prog, cfg, tickmode).main()
