"""Driver R of C01: one program per read / effect constructor in the behavioural
subset, each in statement-ish and operand position (beside an effectful sibling)."""

SENDER = b"\x01" * 32
ADDR2 = b"\x22" * 32

TXN_U = ["Fee", "FirstValid", "LastValid", "Amount", "TypeEnum", "GroupIndex", "ApplicationID", "OnCompletion",
         "NumAppArgs", "NumAccounts", "XferAsset", "AssetAmount"]
TXN_B = ["Sender", "Note", "Receiver", "Type", "RekeyTo", "Lease", "CloseRemainderTo"]
GLOBAL_U = ["MinTxnFee", "MinBalance", "MaxTxnLife", "GroupSize", "LogicSigVersion", "Round", "LatestTimestamp",
            "CurrentApplicationID", "OpcodeBudget", "CallerApplicationID"]
GLOBAL_B = ["ZeroAddress", "CreatorAddress", "CurrentApplicationAddress", "GroupID", "CallerApplicationAddress"]

FIELDS1 = {"Fee": 1000, "FirstValid": 100, "LastValid": 1100, "Amount": 0, "TypeEnum": 6, "Type": b"appl",
           "ApplicationID": 7, "OnCompletion": 0, "NumAccounts": 0, "XferAsset": 0, "AssetAmount": 0,
           "Sender": SENDER, "Note": b"", "Receiver": bytes(32), "RekeyTo": bytes(32), "Lease": bytes(32),
           "CloseRemainderTo": bytes(32)}
FIELDS2 = dict(FIELDS1, Fee=(1 << 64) - 1, OnCompletion=1, ApplicationID=0, Note=b"hello;//\"", Amount=5,
               Lease=b"\x07" * 32, XferAsset=77, AssetAmount=1 << 63)
GF1 = {"MinTxnFee": 1000, "MinBalance": 100000, "MaxTxnLife": 1000, "ZeroAddress": bytes(32), "LogicSigVersion": 10,
       "Round": 4242, "LatestTimestamp": 1700000000, "CurrentApplicationID": 7, "CreatorAddress": b"\x0c" * 32,
       "CurrentApplicationAddress": b"\x0a" * 32, "GroupID": b"\x0b" * 32, "OpcodeBudget": 700,
       "CallerApplicationID": 0, "CallerApplicationAddress": bytes(32)}
GF2 = dict(GF1, Round=(1 << 64) - 1, CurrentApplicationID=1001, CallerApplicationID=9, GroupID=bytes(32))

INPUTS = [
    {"args": [b"\x01", b"k"], "fields": FIELDS1, "gfields": GF1, "globals": {}, "locals": {}},
    {"args": [b"\x00", b"k"], "fields": FIELDS2, "gfields": GF2, "globals": {b"k": 5, b"s": b"xy"},
     "locals": {b"k": b"loc", b"n": 9}, "app_id": 0, "oc": 1, "current_app_id": 1001},
    {"args": [], "fields": FIELDS1, "gfields": GF1, "globals": {b"k": b""}, "locals": {}},
]


def _prog(main):
    return {"mode": "A", "vars": {}, "subs": {}, "main": main}


def _observe_u(r):
    yield ["Seq", ["GPut", ["Bytes", "72"], r], ["Int", 1]]
    yield ["Seq", ["GPut", ["Bytes", "72"], ["BitwiseXor", ["Tick", 1, 5], r]], ["Tick", 2, 1]]
    yield ["Seq", ["GPut", ["Bytes", "72"], ["BitwiseXor", r, ["Tick", 1, 5]]], ["Tick", 2, 1]]


def _observe_b(r):
    tb = ["Seq", ["TickS", 1], ["Bytes", "7a"]]
    yield ["Seq", ["GPut", ["Bytes", "72"], r], ["Int", 1]]
    yield ["Seq", ["GPut", ["Bytes", "72"], ["Concat", tb, r]], ["Tick", 2, 1]]
    yield ["Seq", ["GPut", ["Bytes", "72"], ["Concat", r, tb]], ["Tick", 2, 1]]


def _observe_a(r):
    # anytype result (state reads): store it back
    yield ["Seq", ["GPut", ["Bytes", "72"], r], ["Int", 1]]
    yield ["Seq", ["TickS", 1], ["GPut", ["Bytes", "72"], r], ["Tick", 2, 1]]


def _tx(**kw):
    t = {"Sender": b"\x30" * 32, "Fee": 1000, "Amount": 0, "Receiver": bytes(32), "TypeEnum": 1, "Type": b"pay", "Note": b"",
         "XferAsset": 0, "AssetAmount": 0}
    t.update(kw)
    return t


_G3 = [_tx(Sender=b"\x31" * 32, Fee=2000, Amount=11, Receiver=b"\x41" * 32, Note=b"n0"),
       None,  # the application call itself (filled in by the driver)
       _tx(Sender=b"\x33" * 32, Fee=0, TypeEnum=4, Type=b"axfer", XferAsset=77, AssetAmount=(1 << 64) - 1, Note=b"n2")]
for _i, _t in enumerate(_G3):
    if _t is not None:
        _t["GroupIndex"] = _i

GROUP_INPUTS = [
    {"args": [b"\x00", b"k"], "fields": dict(FIELDS1, Amount=0, Receiver=bytes(32), XferAsset=0, AssetAmount=0),
     "gfields": GF1, "group": _G3, "group_index": 1,
     "arrays": {"Accounts": [ADDR2, b"\x55" * 32], "Assets": [5, 6, 7], "Applications": [99]}},
    {"args": [b"\x01", b"k"], "fields": dict(FIELDS1, Amount=0, Receiver=bytes(32), XferAsset=0, AssetAmount=0),
     "gfields": GF1, "group": _G3, "group_index": 1,
     "arrays": {"Accounts": [], "Assets": [5], "Applications": []}},
    {"args": [b"\x02"], "fields": FIELDS1, "gfields": GF1, "arrays": {"Accounts": [ADDR2], "Assets": [], "Applications": [1, 2, 3]}},
]


def programs():
    out = []
    gout = []
    for f in TXN_U:
        for m in _observe_u(["TxnField", f]):
            out.append(m)
    for f in TXN_B:
        for m in _observe_b(["TxnField", f]):
            out.append(m)
    for f in GLOBAL_U:
        for m in _observe_u(["GlobalField", f]):
            out.append(m)
    for f in GLOBAL_B:
        for m in _observe_b(["GlobalField", f]):
            out.append(m)
    keys = [["Bytes", "6b"], ["Arg", 1], ["Bytes", "73"], ["Seq", ["TickS", 4], ["Bytes", "6b"]]]
    for k in keys:
        for m in _observe_a(["GlobalGet", k]):
            out.append(m)
        for m in _observe_u(["GlobalGetExHas", k]):
            out.append(m)
        for m in _observe_a(["GlobalGetExVal", k]):
            out.append(m)
        for m in _observe_a(["LGet", k]):
            out.append(m)
        for v in (["Int", 3], ["Bytes", "7171"], ["Tick", 5, 9], ["GlobalGet", ["Bytes", "6b"]]):
            out.append(["Seq", ["GPut", k, v], ["GPut", ["Bytes", "72"], ["GlobalGet", ["Bytes", "6b"]]], ["Int", 1]])
            out.append(["Seq", ["LPut", k, v], ["GPut", ["Bytes", "72"], ["LGet", ["Bytes", "6b"]]], ["Int", 1]])
        out.append(["Seq", ["GDel", k], ["GPut", ["Bytes", "72"], ["GlobalGetExHas", ["Bytes", "6b"]]], ["Int", 1]])
        out.append(["Seq", ["LDel", k], ["GPut", ["Bytes", "72"], ["LGet", ["Bytes", "6b"]]], ["Int", 1]])
        out.append(["Seq", ["Log", k], ["Int", 1]])
        out.append(["Seq", ["Log", ["Concat", k, ["Seq", ["TickS", 2], ["Bytes", "21"]]]], ["Log", k], ["Tick", 3, 1]])
    # array reads with constant and computed index
    for i in (0, 1, 2):
        out.append(["Seq", ["Log", ["Arg", i]], ["Int", 1]])
    # other transactions of the group (constant and computed index) and the foreign arrays
    for f in ("Sender", "Fee", "Amount", "Receiver", "TypeEnum", "Note", "XferAsset", "AssetAmount", "GroupIndex"):
        obs = _observe_u if f in ("Fee", "Amount", "TypeEnum", "XferAsset", "AssetAmount", "GroupIndex") else _observe_b
        for idx in (0, 1, 2, 3, ["Btoi", ["Arg", 0]], ["Add", ["Btoi", ["Arg", 0]], ["Int", 1]]):
            for m in obs(["GtxnField", idx, f]):
                gout.append(m)
    for arr, obs in (("Accounts", _observe_b), ("Assets", _observe_u), ("Applications", _observe_u), ("ApplicationArgs", _observe_b)):
        for idx in (0, 1, 2, 3, ["Btoi", ["Arg", 0]], ["Mul", ["Btoi", ["Arg", 0]], ["Int", 2]]):
            for m in obs(["TxnArr", arr, idx]):
                gout.append(m)
    # inner transactions
    pay = [["TypeEnum", ["Int", 1]], ["Amount", ["Tick", 1, 7]], ["Receiver", ["TxnField", "Sender"]],
           ["Fee", ["Tick", 2, 0]]]
    axfer = [["TypeEnum", ["Int", 4]], ["XferAsset", ["Int", 77]], ["AssetAmount", ["Btoi", ["Arg", 0]]],
             ["AssetReceiver", ["GlobalField", "CurrentApplicationAddress"]]]
    appl = [["TypeEnum", ["Int", 6]], ["ApplicationID", ["Int", 9]],
            ["ApplicationArgs", [["Bytes", "00"], ["Seq", ["TickS", 3], ["Bytes", "01"]], ["Arg", 1]]],
            ["OnCompletion", ["Int", 0]]]
    bad = [["TypeEnum", ["Int", 1]], ["Receiver", ["Bytes", "00"]]]
    for style in ("setfield", "setfields", "execute"):
        for g in ([pay], [axfer], [appl], [pay, axfer], [appl, pay, appl], [bad]):
            if style == "execute" and len(g) != 1:
                continue
            out.append(["Seq", ["TickS", 6], ["Itxn", style, g], ["Tick", 7, 1]])
    for m in out:
        yield 1, _prog(m), INPUTS, 2
    for m in gout:
        yield 1, _prog(m), GROUP_INPUTS, 2
