"""Glue shared by the behavioural checks: compile a recipe under a configuration
with the real compiler, build matching contexts for the reference evaluator and
the AVM interpreter, compare outcomes per DESIGN 1.4."""
import pyteal as pt

from .avm import asm, interp
from .recipe import build as rb
from .recipe import sem

PT_ERRORS = (pt.TealInputError, pt.TealCompileError, pt.TealTypeError, pt.TealInternalError, pt.TealPragmaError)

REF_FUEL = 400
AVM_FUEL = 200 * REF_FUEL + 2000


def tickmode_for(cfg):
    if cfg.mode == "S":
        return "journal"
    if cfg.version < 5:
        return "gput"
    return "log"


def compile_recipe(prog, cfg, tickmode=None):
    """-> ("ok", text) | ("pterr", exc) | ("crash", exc)"""
    tm = tickmode or tickmode_for(cfg)
    try:
        # the recipe -> Expr builder is itself recursive (several Python frames per nesting level); it must not
        # be what exhausts the recursion limit, so only the *compilation* runs under the caller's limit
        import sys
        lim = sys.getrecursionlimit()
        sys.setrecursionlimit(max(lim, 20000))
        try:
            expr = rb.build(prog, cfg, tm)
        finally:
            sys.setrecursionlimit(lim)
        return "ok", rb.compile_cfg(expr, cfg)
    except PT_ERRORS as e:
        return "pterr", e
    except RecursionError as e:
        return "crash", e
    except Exception as e:
        return "crash", e


def make_inputs_basic():
    """the basic input alphabet: argument vectors"""
    return [
        {"args": []},
        {"args": [b"\x00"]},
        {"args": [b"\x01"]},
    ]


def env_for(inp, cfg):
    args = inp.get("args", [])
    if cfg.mode == "A":
        e = sem.Env(mode="A", app_args=args, globals_=inp.get("globals"), fields=inp.get("fields"),
                    gfields=inp.get("gfields"))
    else:
        e = sem.Env(mode="S", lsig_args=args, fields=inp.get("fields"), gfields=inp.get("gfields"))
    e.locals = inp.get("locals")
    if inp.get("group") is not None:
        e.group = list(inp["group"])
        e.group_index = inp.get("group_index", 0)
        e.group_size = len(e.group)
    e.arrays = dict(inp.get("arrays") or {})
    return e


def ctx_for(inp, cfg):
    args = inp.get("args", [])
    if cfg.mode == "A":
        txn = interp.default_txn(ApplicationArgs=list(args), OnCompletion=inp.get("oc", 0),
                                 ApplicationID=inp.get("app_id", 7))
        txn.update(inp.get("fields") or {})
        for k, v in (inp.get("arrays") or {}).items():
            txn[k] = list(v)
        group = inp.get("group")
        gi = inp.get("group_index", 0)
        if group is None:
            group = [txn]
        else:
            group = list(group)
            group[gi] = txn
        sender = txn.get("Sender")
        locs = {(sender, k): v for k, v in (inp.get("locals") or {}).items()}
        return interp.Ctx(mode="A", group=group, group_index=gi, globals_=inp.get("globals"),
                          glob=inp.get("gfields"), locals_=locs, opted_in=[sender],
                          current_app_id=inp.get("current_app_id"))
    txn = interp.default_txn(TypeEnum=1, Type=b"pay", ApplicationID=0)
    txn.update(inp.get("fields") or {})
    return interp.Ctx(mode="S", group=[txn], args=list(args), glob=inp.get("gfields"))


def expected_outcome(prog, inp, cfg, tickmode=None, fuel=REF_FUEL):
    tm = tickmode or tickmode_for(cfg)
    out, ev = sem.evaluate(prog, env_for(inp, cfg), fuel=fuel, tickmode=tm)
    if out[0] in ("APPROVE", "REJECT"):
        eff = tuple(interp._fz(e) for e in out[2])
        if tm == "journal":
            eff = eff + (("journal", ev.journal),)
        out = (out[0], out[1], eff)
    return out


def observed_outcome(res, tickmode):
    if res.verdict in ("APPROVE", "REJECT"):
        eff = tuple(interp._fz(e) for e in res.effects)
        if tickmode == "journal":
            eff = eff + (("journal", res.scratch[rb.JOURNAL_SLOT]),)
        return (res.verdict, res.ret, eff)
    return (res.verdict,)


def compare(exp, got):
    """-> None if they agree / are not comparable, else a short reason"""
    if exp[0] in ("RESOURCE", "NORETURN"):
        return None
    if got[0] == "RESOURCE":
        return "compiled program exhausts 200x the fuel the source semantics needs"
    if exp[0] == "FAIL" or got[0] == "FAIL":
        if exp[0] != got[0]:
            return "verdict differs"
        return None
    if exp[0] != got[0]:
        return "verdict differs"
    if exp[1] != got[1]:
        return "return value differs"
    if tuple(exp[2]) != tuple(got[2]):
        return "effects differ"
    return None


class ExecCache:
    """memoise interpreter runs on (instruction stream, input index)"""

    def __init__(self):
        self.cache = {}
        self.hits = 0
        self.runs = 0

    def run(self, program, stream_key, inp_key, ctx_factory, fuel=AVM_FUEL, record=False):
        k = (stream_key, inp_key)
        r = self.cache.get(k)
        if r is not None:
            self.hits += 1
            return r
        self.runs += 1
        r = interp.run(program, ctx_factory(), fuel=fuel, record_boundaries=record)
        self.cache[k] = r
        return r
