"""C11 fork server: runs in a FRESH interpreter (its own PYTHONHASHSEED).  It imports pyteal,
performs no PyTeal activity itself, and for every request forks a child that replays a
history of API activities and then compiles the probes; the child's observations are
relayed as one JSON line.  A state of the exploration = the process-global fields after
the history; a transition = one activity.
"""
import hashlib
import json
import os
import sys
import traceback

sys.setrecursionlimit(3000)
import traceback as _tb
_tb.format_stack = lambda *a, **k: ["<trace disabled>\n", ""]

import pyteal as pt  # noqa: E402
from pyteal import abi  # noqa: E402
from pyteal.ast.scratch import ScratchSlot  # noqa: E402
from pyteal.ast.subroutine import SubroutineDefinition, SubroutineEval  # noqa: E402

try:
    from feature_gates import FeatureGates  # noqa: E402
except Exception:  # pragma: no cover
    FeatureGates = None

PT_ERRORS = (pt.TealInputError, pt.TealCompileError, pt.TealTypeError, pt.TealInternalError, pt.TealPragmaError)


class Boom(Exception):
    pass


# ------------------------------------------------------------------ activities
def a_compile_v6():
    x, y = pt.ScratchVar(), pt.ScratchVar(pt.TealType.bytes)
    pt.compileTeal(pt.Seq(x.store(pt.Int(1)), y.store(pt.Bytes("a")), pt.Pop(y.load()), x.load()), pt.Mode.Application, version=6)


def a_compile_sub_v8():
    @pt.Subroutine(pt.TealType.uint64)
    def helper(a, b):
        t = pt.ScratchVar()
        return pt.Seq(t.store(a + b), t.load())
    pt.compileTeal(helper(pt.Int(1), pt.Int(2)), pt.Mode.Application, version=8)


def a_type_error():
    try:
        pt.Add(pt.Int(1), pt.Bytes("a"))
    except PT_ERRORS:
        pass


def a_version_too_low():
    try:
        pt.compileTeal(pt.Seq(pt.Log(pt.Bytes("a")), pt.Int(1)), pt.Mode.Application, version=2)
    except PT_ERRORS:
        pass


def a_break_outside():
    try:
        pt.compileTeal(pt.Seq(pt.Break(), pt.Int(1)), pt.Mode.Application, version=6)
    except PT_ERRORS:
        pass


def a_too_many_slots():
    vs = [pt.ScratchVar() for _ in range(260)]
    try:
        pt.compileTeal(pt.Seq(*[v.store(pt.Int(1)) for v in vs], pt.Int(1)), pt.Mode.Application, version=6)
    except PT_ERRORS:
        pass


def _raising_sub(version):
    @pt.Subroutine(pt.TealType.uint64)
    def bad(a):
        raise Boom("user code raises while the subroutine is evaluated")
    try:
        pt.compileTeal(bad(pt.Int(1)), pt.Mode.Application, version=version)
    except (Boom,) + PT_ERRORS:
        pass


def a_sub_raises_fp():
    _raising_sub(8)


def a_sub_raises_scratch():
    _raising_sub(6)


def a_abi_sub_raises():
    @pt.ABIReturnSubroutine
    def bad(a: abi.Uint64, *, output: abi.Uint16) -> pt.Expr:
        return output.set(70000)
    try:
        r = abi.Uint16()
        x = abi.Uint64()
        pt.compileTeal(pt.Seq(x.set(pt.Int(1)), r.set(bad(x)), pt.Int(1)), pt.Mode.Application, version=8)
    except PT_ERRORS:
        pass


def a_define_never_compile():
    @pt.Subroutine(pt.TealType.none)
    def unused(a, b, c):
        t = pt.ScratchVar()
        return pt.Seq(t.store(a), pt.Pop(t.load()))
    unused(pt.Int(1), pt.Int(2), pt.Int(3))  # a call expression, never compiled


def a_probe_has_return():
    @pt.Subroutine(pt.TealType.uint64)
    def probed(a):
        t = pt.ScratchVar()
        return pt.Seq(t.store(a), pt.Return(t.load()))
    c = probed(pt.Int(1))
    c.has_return()
    c.type_of()


def a_tmpl():
    pt.Tmpl.Int("TMPL_A")
    pt.Tmpl.Bytes("TMPL_B")
    pt.Tmpl.Addr("TMPL_C")


def _router(n=2):
    r = pt.Router("hist", pt.BareCallActions(no_op=pt.OnCompleteAction.create_only(pt.Approve())), clear_state=pt.Approve())

    @pt.ABIReturnSubroutine
    def m1(a: abi.Uint64, b: abi.String, *, output: abi.String) -> pt.Expr:
        return output.set(b.get())

    @pt.ABIReturnSubroutine
    def m3(a: abi.Uint64) -> pt.Expr:
        return pt.Pop(a.get())
    r.add_method_handler(m1)
    if n > 1:
        r.add_method_handler(m3)
    return r


def a_router_ok():
    _router().compile_program(version=6)


def a_router_ok_v8():
    _router().compile_program(version=8)


def a_router_fail():
    try:
        r = _router(1)

        @pt.ABIReturnSubroutine
        def m1(a: abi.Uint64, b: abi.String, *, output: abi.String) -> pt.Expr:
            return output.set(b.get())
        r.add_method_handler(m1)  # duplicate
    except PT_ERRORS:
        pass
    try:
        _router().compile_program(version=3)
    except PT_ERRORS:
        pass


def a_sourcemap_gate():
    if FeatureGates is None:
        return
    try:
        FeatureGates.set_sourcemap_enabled(True)
        x = pt.ScratchVar()
        comp = pt.Compilation(pt.Seq(x.store(pt.Int(1)), x.load()), pt.Mode.Application, version=8)
        try:
            comp.compile(with_sourcemap=True)
        except Exception:
            pass
    finally:
        FeatureGates.set_sourcemap_enabled(False)


def a_optimize_compile():
    x = pt.ScratchVar()
    pt.compileTeal(pt.Seq(x.store(pt.Int(1)), x.load()), pt.Mode.Application, version=10, optimize=pt.OptimizeOptions(scratch_slots=True, frame_pointers=True))


_PROBE_ADDR = "AAAAAAAAAAAAAAAAAAAAAAAAAAAAAAAAAAAAAAAAAAAAAAAAAAAAY5HFKQ"


def a_namesakes():
    """an unrelated program whose objects carry the NAMES (subroutine names, named-tuple field names, literal
    texts, template names) the probes use for other things"""
    @pt.Subroutine(pt.TealType.uint64)
    def fact(a, b):
        return a + b

    @pt.Subroutine(pt.TealType.uint64)
    def even(n):
        return n % pt.Int(2)

    class Pair(abi.NamedTuple):
        hi: abi.Field[abi.Uint16]
        lo: abi.Field[abi.Uint64]
        extra: abi.Field[abi.String]
    pr = Pair()
    out16 = abi.Uint16()
    e = pt.Seq(pr.decode(pt.Txn.application_args[0]), pr.hi.store_into(out16),
               pt.Log(pt.Bytes("probe(uint64)void")), pt.Log(pt.Bytes(_PROBE_ADDR)), pt.Log(pt.Bytes("TMPL_PROBE")),
               pt.Log(pt.Bytes("probe(uint64)void")), pt.Log(pt.Bytes(_PROBE_ADDR)), pt.Log(pt.Bytes("TMPL_PROBE")),
               fact(even(pt.Int(1)), out16.get()))
    pt.compileTeal(e, pt.Mode.Application, version=6, assembleConstants=True)
    pt.compileTeal(e, pt.Mode.Application, version=8)


ACTIVITIES = {
    "namesakes": a_namesakes,
    "compile_v6": a_compile_v6, "compile_sub_v8": a_compile_sub_v8, "type_error": a_type_error,
    "version_too_low": a_version_too_low, "break_outside": a_break_outside, "too_many_slots": a_too_many_slots,
    "sub_raises_fp": a_sub_raises_fp, "sub_raises_scratch": a_sub_raises_scratch, "abi_sub_raises": a_abi_sub_raises,
    "define_never_compile": a_define_never_compile, "probe_has_return": a_probe_has_return, "tmpl": a_tmpl,
    "router_ok": a_router_ok, "router_ok_v8": a_router_ok_v8, "router_fail": a_router_fail,
    "sourcemap_gate": a_sourcemap_gate, "optimize_compile": a_optimize_compile,
}


# ------------------------------------------------------------------ probes
def p_abi_main(version):
    a, b, c = abi.Uint64(), abi.String(), abi.make(abi.Tuple2[abi.Uint64, abi.String])
    return pt.compileTeal(pt.Seq(a.set(pt.Int(5)), b.set("hi"), c.set(a, b), pt.Log(c.encode()), pt.Int(1)),
                          pt.Mode.Application, version=version)


def p_recursive(version):
    @pt.Subroutine(pt.TealType.uint64)
    def fact(n):
        t = pt.ScratchVar()
        return pt.Seq(t.store(n), pt.If(n <= pt.Int(1)).Then(pt.Int(1)).Else(t.load() * fact(n - pt.Int(1))))

    @pt.Subroutine(pt.TealType.none)
    def logit(b):
        return pt.Log(b)
    return pt.compileTeal(pt.Seq(logit(pt.Itob(fact(pt.Int(4)))), pt.Int(1)), pt.Mode.Application, version=version)


def p_recursive_reserved(version):
    """a recursive routine whose local slots have requested ids that collide in small hash tables (1, 9, 17, 25,
    33 and 2, 10): any iteration over a SET of them is order-sensitive"""
    @pt.Subroutine(pt.TealType.uint64)
    def walk(n):
        vs = [pt.ScratchVar(pt.TealType.uint64, sid) for sid in (17, 1, 33, 9, 25, 10, 2)]
        autos = [pt.ScratchVar(pt.TealType.uint64) for _ in range(3)]
        allv = vs + autos
        tot = pt.Int(0)
        for v in allv:
            tot = tot + v.load()
        return pt.Seq(*[v.store(n + pt.Int(i)) for i, v in enumerate(allv)],
                      pt.If(n == pt.Int(0)).Then(pt.Int(1)).Else(walk(n - pt.Int(1)) + tot))
    return pt.compileTeal(walk(pt.Int(3)), pt.Mode.Application, version=version, optimize=pt.OptimizeOptions(frame_pointers=False))


def p_router(version):
    ap, cl, contract = _router().compile_program(version=version)
    return ap + "\n=====\n" + cl + "\n=====\n" + json.dumps(contract.dictify(), sort_keys=True)


def p_slots(version):
    vs = [pt.ScratchVar(pt.TealType.uint64, 200 if i == 3 else None) for i in range(6)]
    d = pt.DynamicScratchVar()
    mv = pt.App.globalGetEx(pt.Int(0), pt.Bytes("k"))
    return pt.compileTeal(pt.Seq(*[v.store(pt.Int(i)) for i, v in enumerate(vs)], d.set_index(vs[2]), d.store(pt.Int(9)), mv,
                                 pt.Pop(mv.value()), pt.If(mv.hasValue()).Then(vs[0].store(vs[5].load())), vs[0].load() + vs[3].load()),
                          pt.Mode.Application, version=version)


def p_named_things(version):
    """named tuple fields, method / address / template constants through the constant assembler"""
    class Pair(abi.NamedTuple):
        lo: abi.Field[abi.Uint64]
        hi: abi.Field[abi.Uint16]
    pr = Pair()
    a, b = abi.Uint64(), abi.Uint16()
    e = pt.Seq(pr.decode(pt.Txn.application_args[0]), pr.lo.store_into(a), pr.hi.store_into(b),
               pt.Log(pt.MethodSignature("probe(uint64)void")), pt.Log(pt.Addr(_PROBE_ADDR)), pt.Log(pt.Tmpl.Bytes("TMPL_PROBE")),
               pt.Log(pt.MethodSignature("probe(uint64)void")), pt.Log(pt.Addr(_PROBE_ADDR)), pt.Log(pt.Tmpl.Bytes("TMPL_PROBE")),
               a.get() + b.get())
    return (pt.compileTeal(e, pt.Mode.Application, version=version, assembleConstants=True) + "\n=====\n" +
            pt.compileTeal(e, pt.Mode.Application, version=version))


def p_templates_tied(version):
    """several template placeholders and literals of every kind, all used equally often (ties in the frequency
    ranking of the constant blocks): the order inside the blocks must not depend on hashing"""
    ti = [pt.Tmpl.Int("TMPL_MIN_FEE"), pt.Tmpl.Int("TMPL_MAX_FEE"), pt.Tmpl.Int("TMPL_ROUNDS"), pt.Int(1000), pt.Int(2000)]
    tb = [pt.Tmpl.Bytes("TMPL_OWNER_KEY"), pt.Tmpl.Bytes("TMPL_ESCROW_KEY"), pt.Tmpl.Addr("TMPL_RECEIVER"), pt.Bytes("lit1"),
          pt.Bytes("lit2"), pt.MethodSignature("probe()void")]
    steps = []
    for _round in range(2):
        for e in ti:
            steps.append(pt.Pop(e))
        for e in tb:
            steps.append(pt.Pop(e))
    e = pt.Seq(*steps, pt.Int(1))
    return pt.compileTeal(e, pt.Mode.Application, version=version, assembleConstants=True)


def p_same_expr_twice(version):
    x = pt.ScratchVar()

    @pt.Subroutine(pt.TealType.uint64)
    def twice(a):
        return a * pt.Int(2)
    e = pt.Seq(x.store(twice(pt.Int(2))), x.load())
    t1 = pt.compileTeal(e, pt.Mode.Application, version=version)
    t2 = pt.compileTeal(e, pt.Mode.Application, version=version)
    return "SAME" if t1 == t2 else "DIFFERENT\n" + t1 + "\n-----\n" + t2


def p_same_expr_probe_between(version):
    """compile, then only QUERY the subroutines (type_of / has_return, or an unrelated router that uses one of
    them as a bare-call handler), then compile the same expression object again"""
    @pt.Subroutine(pt.TealType.uint64)
    def first(a):
        t = pt.ScratchVar()
        return pt.Seq(t.store(a), t.load() + pt.Int(1))

    @pt.Subroutine(pt.TealType.none)
    def second():
        t = pt.ScratchVar()
        return pt.Seq(t.store(pt.Int(5)), pt.Pop(t.load()))

    @pt.Subroutine(pt.TealType.uint64)
    def third(a, b):
        t = pt.ScratchVar()
        return pt.Seq(t.store(a + b), t.load())
    e = pt.Seq(second(), first(pt.Int(1)) + third(pt.Int(2), pt.Int(3)))
    t1 = pt.compileTeal(e, pt.Mode.Application, version=version)
    first.type_of()
    first.has_return()
    t2 = pt.compileTeal(e, pt.Mode.Application, version=version)
    r = pt.Router("probe", pt.BareCallActions(no_op=pt.OnCompleteAction.always(second)), clear_state=pt.Approve())
    r.compile_program(version=max(version, 6))
    third.type_of()
    t3 = pt.compileTeal(e, pt.Mode.Application, version=version)
    if t1 == t2 == t3:
        return "SAME"
    return "DIFFERENT after_query=%s after_router=%s\n" % (t1 != t2, t2 != t3) + t1 + "\n-----\n" + t2 + "\n-----\n" + t3


def p_same_compilation_twice(version):
    """ONE Compilation object whose compile() is called repeatedly (recursive routine with locals, mutual
    recursion, ABI value in main): every call, and a fresh compileTeal of the same expression, give one text"""
    @pt.Subroutine(pt.TealType.uint64)
    def fact(n):
        t = pt.ScratchVar()
        return pt.Seq(t.store(n), pt.If(t.load() <= pt.Int(1)).Then(pt.Int(1)).Else(t.load() * fact(t.load() - pt.Int(1))))

    @pt.Subroutine(pt.TealType.uint64)
    def even(n):
        return pt.If(n == pt.Int(0)).Then(pt.Int(1)).Else(odd(n - pt.Int(1)))

    @pt.Subroutine(pt.TealType.uint64)
    def odd(n):
        return pt.If(n == pt.Int(0)).Then(pt.Int(0)).Else(even(n - pt.Int(1)))
    u = pt.abi.Uint64()
    x = pt.ScratchVar()
    e = pt.Seq(u.set(fact(pt.Int(4))), x.store(even(pt.Int(3))), u.get() + x.load())
    texts = []
    for opts in (None, pt.OptimizeOptions(scratch_slots=True), pt.OptimizeOptions(frame_pointers=False)):
        kw = {} if opts is None else {"optimize": opts}
        c = pt.Compilation(e, pt.Mode.Application, version=version, **kw)
        t = [c.compile().teal for _ in range(3)]
        t.append(pt.compileTeal(e, pt.Mode.Application, version=version, **kw))
        texts.append(t)
    if all(t[0] == x_ for t in texts for x_ in t):
        return "SAME"
    bad = [t for t in texts if any(t[0] != x_ for x_ in t)][0]
    k = [i for i, x_ in enumerate(bad) if x_ != bad[0]][0]
    return "DIFFERENT call=%d\n" % k + bad[0] + "\n-----\n" + bad[k]


def query_build(version, query, **compile_kw):
    """7 + outer(5) == 5013 with outer(k) = k*1000 + inc(k); optionally the wrapper `outer` is queried (type_of /
    has_return) between its definition and the creation of the main routine's variables"""
    if True:
        @pt.ABIReturnSubroutine
        def inc(x: abi.Uint64, *, output: abi.Uint64) -> pt.Expr:
            # the callee overwrites its own copy of the argument and uses a temporary
            tmp = abi.Uint64()
            return pt.Seq(x.set(x.get() + pt.Int(100)), tmp.set(x.get() + pt.Int(1)), output.set(tmp))

        @pt.Subroutine(pt.TealType.uint64)
        def outer(k):
            # every variable of this routine is written before the call of inc and read after it
            k1, k2, k3 = pt.ScratchVar(pt.TealType.uint64), pt.ScratchVar(pt.TealType.uint64), pt.ScratchVar(pt.TealType.uint64)
            a, b = abi.Uint64(), abi.Uint64()
            return pt.Seq(k1.store(k * pt.Int(1000)), k2.store(k * pt.Int(100)), k3.store(k * pt.Int(10)), a.set(k),
                          inc(a).store_into(b), k1.load() + k2.load() + k3.load() + a.get() + b.get() + k)
        if query:
            outer.type_of()
            outer.has_return()
        total = pt.ScratchVar(pt.TealType.uint64)
        other = pt.ScratchVar(pt.TealType.uint64)
        e = pt.Seq(total.store(pt.Int(7)), other.store(outer(pt.Int(5))), total.load() + other.load() == pt.Int(5673))
        return pt.compileTeal(e, pt.Mode.Application, version=version, **compile_kw)


def p_same_expr_query_before_build(version):
    """the same program is built twice from scratch; the second time a subroutine wrapper is QUERIED (type_of /
    has_return evaluate its body on the side and rewind the slot counter) before the remaining variables are
    created.  The two texts must agree up to a one-to-one renumbering of scratch slots."""
    def build(query):
        return query_build(version, query)

    def canon(text):
        # subroutine ids (label suffixes) differ between two builds: rename labels by order of definition
        lines = text.split("\n")
        ren = {}
        for l in lines:
            s = l.strip()
            if s.endswith(":") and " " not in s:
                ren.setdefault(s[:-1], "L%d" % len(ren))
        out = []
        for l in lines:
            toks = l.split(" ")
            out.append(" ".join(ren.get(t, ren.get(t[:-1], t[:-1]) + ":" if t.endswith(":") and t[:-1] in ren else t) for t in toks))
        return "\n".join(out)
    t1 = canon(build(False))
    t2 = canon(build(True))
    if equal_up_to_slot_renumbering(t1, t2):
        return "SAME"
    return "DIFFERENT\n" + t1 + "\n-----\n" + t2


def _canon_labels(text):
    lines = text.split("\n")
    ren = {}
    for l in lines:
        s = l.strip()
        if s.endswith(":") and " " not in s:
            ren.setdefault(s[:-1], "L%d" % len(ren))
    out = []
    for l in lines:
        toks = l.split(" ")
        out.append(" ".join((ren[t[:-1]] + ":") if (t.endswith(":") and t[:-1] in ren) else ren.get(t, t) for t in toks))
    return "\n".join(out)


def p_same_expr_version_order(version):
    """a program whose subroutine stores the result of an ABI-returning subroutine and allocates ABI values
    afterwards: its version-8 text must be the same whether or not the SAME objects were compiled for version 7
    (and with frame pointers off) before"""
    def build():
        @pt.ABIReturnSubroutine
        def inner(x: abi.Uint64, *, output: abi.Uint64) -> pt.Expr:
            return output.set(x.get() + pt.Int(1))

        @pt.Subroutine(pt.TealType.uint64)
        def outer(k):
            a, b = abi.Uint64(), abi.Uint64()
            first = pt.Seq(a.set(k), inner(a).store_into(b))
            c, d = abi.Uint64(), abi.String()      # allocated AFTER the nested declaration was evaluated
            return pt.Seq(first, c.set(b.get() * pt.Int(2)), d.set("xy"), c.get() + pt.Len(d.get()))
        return pt.Seq(pt.Pop(outer(pt.Int(5))), pt.Int(1))
    e1 = build()
    fresh8 = pt.compileTeal(e1, pt.Mode.Application, version=8)
    e2 = build()
    pt.compileTeal(e2, pt.Mode.Application, version=7)
    pt.compileTeal(e2, pt.Mode.Application, version=8, optimize=pt.OptimizeOptions(frame_pointers=False))
    after = pt.compileTeal(e2, pt.Mode.Application, version=8)
    t1, t2 = _canon_labels(fresh8), _canon_labels(after)
    if equal_up_to_slot_renumbering(t1, t2):
        return "SAME"
    return "DIFFERENT\n" + t1 + "\n-----\n" + t2


def p_router_twice(version):
    r = _router()
    a1 = r.compile_program(version=version)
    a2 = r.compile_program(version=version)
    a3 = r.compile_program(version=version)
    if a1[0] == a2[0] == a3[0] and a1[1] == a2[1] == a3[1]:
        return "SAME"
    # the verdict is reported in a history-independent form; the texts follow after the first line
    ren = equal_up_to_slot_renumbering(a1[0], a2[0]) and equal_up_to_slot_renumbering(a1[1], a2[1])
    return "DIFFERENT renumbering_only=%s\n" % ren + a1[0] + "\n-----\n" + a2[0] + "\n-----\n" + a3[0]


_SLOT = __import__("re").compile(r"^(load|store) (\d+)$")


def equal_up_to_slot_renumbering(t1, t2):
    a, b = t1.split("\n"), t2.split("\n")
    if len(a) != len(b):
        return False
    fwd, bwd = {}, {}
    for x, y in zip(a, b):
        mx, my = _SLOT.match(x.strip()), _SLOT.match(y.strip())
        if mx and my and mx.group(1) == my.group(1):
            s1, s2 = mx.group(2), my.group(2)
            if fwd.setdefault(s1, s2) != s2 or bwd.setdefault(s2, s1) != s1:
                return False
        elif x != y:
            return False
    return True


def s_slots(version, mid):
    """a program whose objects are created partly before and partly after unrelated activity"""
    x = pt.ScratchVar()
    e1 = x.store(pt.Int(10))
    mid()
    y = pt.ScratchVar()
    return pt.compileTeal(pt.Seq(e1, y.store(pt.Int(20)), x.load() - y.load()), pt.Mode.Application, version=version)


def s_subs(version, mid):
    @pt.Subroutine(pt.TealType.uint64)
    def before(a):
        t = pt.ScratchVar()
        return pt.Seq(t.store(a), t.load() + pt.Int(1))
    c1 = before(pt.Int(1))
    mid()

    @pt.Subroutine(pt.TealType.uint64)
    def after(a):
        t = pt.ScratchVar()
        return pt.Seq(t.store(a), t.load() + pt.Int(2))
    return pt.compileTeal(c1 + after(pt.Int(2)) + before(pt.Int(3)), pt.Mode.Application, version=version)


def s_router(version, mid):
    keep = pt.ScratchVar()
    r = pt.Router("split", pt.BareCallActions(no_op=pt.OnCompleteAction.create_only(
        pt.Seq(keep.store(pt.Int(1)), pt.Pop(keep.load()), pt.Approve()))), clear_state=pt.Approve())

    @pt.ABIReturnSubroutine
    def m1(a: abi.Uint64, b: abi.String, *, output: abi.String) -> pt.Expr:
        return output.set(b.get())
    r.add_method_handler(m1)
    mid()
    ap, cl, _c = r.compile_program(version=version)
    return ap + "\n=====\n" + cl


def s_abi(version, mid):
    a = abi.Uint64()
    e = a.set(pt.Int(5))
    mid()
    b = abi.String()
    c = abi.make(abi.Tuple2[abi.Uint64, abi.String])
    return pt.compileTeal(pt.Seq(e, b.set("hi"), c.set(a, b), pt.Log(c.encode()), pt.Int(1)), pt.Mode.Application, version=version)


def s_named(version, mid):
    """a named tuple and constants are created, unrelated activity runs, then the fields are read and the
    program is compiled (with and without the constant assembler)"""
    class Pair(abi.NamedTuple):
        lo: abi.Field[abi.Uint64]
        hi: abi.Field[abi.Uint16]
    pr = Pair()
    a, b = abi.Uint64(), abi.Uint16()
    m = pt.MethodSignature("probe(uint64)void")
    mid()
    e = pt.Seq(pr.decode(pt.Txn.application_args[0]), pr.lo.store_into(a), pr.hi.store_into(b), pt.Log(m), pt.Log(m),
               pt.Log(pt.Addr(_PROBE_ADDR)), pt.Log(pt.Addr(_PROBE_ADDR)), a.get() + b.get())
    return (pt.compileTeal(e, pt.Mode.Application, version=version, assembleConstants=True) + "\n=====\n" +
            pt.compileTeal(e, pt.Mode.Application, version=version))


SPLIT_PROBES = {"split_slots": s_slots, "split_subs": s_subs, "split_router": s_router, "split_abi": s_abi,
                "split_named": s_named}

def p_many_tied(version):
    """populations of 12 equally frequent constants of each block at two different frequencies (ties far beyond the
    six of templates_tied): their order inside the constant blocks must not depend on hashing"""
    steps = []
    for i in range(12):
        for _r in range(2):
            steps.append(pt.Pop(pt.Bytes("tied-%d" % i)))
            steps.append(pt.Pop(pt.Int(70000 + i)))
    for i in range(12):
        for _r in range(3):
            steps.append(pt.Pop(pt.Bytes("base16", "0x%02x%02x" % (i, 255 - i))))
            steps.append(pt.Pop(pt.Int(90000 + 7 * i)))
    e = pt.Seq(*steps, pt.Int(1))
    return pt.compileTeal(e, pt.Mode.Application, version=version, assembleConstants=True)


PROBES = {"many_tied": p_many_tied, "same_expr_version_order": p_same_expr_version_order, "templates_tied": p_templates_tied, "same_expr_query_before_build": p_same_expr_query_before_build, "recursive_reserved": p_recursive_reserved, "named_things": p_named_things, "abi_main": p_abi_main, "recursive": p_recursive, "router": p_router, "slots": p_slots,
          "same_expr_twice": p_same_expr_twice, "same_expr_probe_between": p_same_expr_probe_between,
          "router_twice": p_router_twice, "same_expr_one_compilation_object": p_same_compilation_twice}
PROBE_VERSIONS = (6, 8)


def global_state():
    st = {
        "nextSlotId": ScratchSlot.nextSlotId,
        "nextSubroutineId": SubroutineDefinition.nextSubroutineId,
        "current_proto": repr(SubroutineEval._current_proto) if SubroutineEval._current_proto is not None else None,
    }
    if FeatureGates is not None:
        try:
            st["sourcemap_enabled"] = bool(FeatureGates.sourcemap_enabled())
        except Exception:
            st["sourcemap_enabled"] = "?"
    return st


def run_history(history, full, mid=None):
    out = {"probes": {}, "activity_errors": {}}
    for name in history:
        try:
            ACTIVITIES[name]()
        except BaseException as e:  # an activity must never leak an exception
            out["activity_errors"][name] = "%s: %s" % (type(e).__name__, str(e)[:200])
    out["state"] = global_state()
    if mid is not None:
        # split probes: the activities of `mid` run between the construction of the first and the second
        # half of the probe's own objects
        def run_mid():
            for name in mid:
                try:
                    ACTIVITIES[name]()
                except BaseException as e:
                    out["activity_errors"][name] = "%s: %s" % (type(e).__name__, str(e)[:200])
        for pname, fn in SPLIT_PROBES.items():
            for v in PROBE_VERSIONS:
                try:
                    text = fn(v, run_mid)
                except BaseException as e:
                    text = "EXC %s: %s" % (type(e).__name__, str(e)[:300])
                out["probes"]["%s@v%d" % (pname, v)] = text if full else hashlib.sha256(text.encode()).hexdigest()
        return out
    for pname, fn in PROBES.items():
        for v in PROBE_VERSIONS:
            try:
                text = fn(v)
            except BaseException as e:
                text = "EXC %s: %s" % (type(e).__name__, str(e)[:300])
            key = "%s@v%d" % (pname, v)
            if pname in ("same_expr_twice", "same_expr_probe_between", "router_twice") and not full:
                text = text.split("\n", 1)[0]  # only the verdict line is compared across processes
            out["probes"][key] = text if full else hashlib.sha256(text.encode()).hexdigest()
    return out


def serve():
    for line in sys.stdin:
        line = line.strip()
        if not line:
            continue
        req = json.loads(line)
        r, w = os.pipe()
        pid = os.fork()
        if pid == 0:
            os.close(r)
            try:
                res = run_history(req["history"], req.get("full", False), req.get("mid"))
            except BaseException:
                res = {"fatal": traceback.format_exc()}
            res["id"] = req["id"]
            with os.fdopen(w, "w") as fh:
                fh.write(json.dumps(res))
            os._exit(0)
        os.close(w)
        with os.fdopen(r) as fh:
            data = fh.read()
        os.waitpid(pid, 0)
        sys.stdout.write(data + "\n")
        sys.stdout.flush()


if __name__ == "__main__":
    serve()
