"""ABI shapes, boundary values, program builders and the reference codec bridge (C06/C07/C09).

A *shape* is a JSON term:
  "bool" | "byte" | "uint8" | "uint16" | "uint32" | "uint64" | "address" | "string"
  ["sarr", shape, n] | ["darr", shape] | ["tuple", shape...] | ["ntuple", shape...]
Values are plain Python: bool / int / bytes(32) for address / bytes for string / lists.
"""
import itertools

import pyteal as pt
from pyteal import abi
from algosdk import abi as sdkabi
from algosdk import encoding as sdkenc

BASE = ["bool", "byte", "uint8", "uint16", "uint32", "uint64", "address", "string"]
BITS = {"byte": 8, "uint8": 8, "uint16": 16, "uint32": 32, "uint64": 64}

_NT_CACHE = {}


def is_bytes_shape(shape):
    """'sbytes<N>' = abi.StaticBytes[N] (byte[N] set from a Python bytes value), 'dbytes' = abi.DynamicBytes (byte[])"""
    return isinstance(shape, str) and (shape == "dbytes" or shape.startswith("sbytes"))


def spec(shape):
    if is_bytes_shape(shape):
        return abi.DynamicBytesTypeSpec() if shape == "dbytes" else abi.StaticBytesTypeSpec(int(shape[6:]))
    if isinstance(shape, str):
        return {"bool": abi.BoolTypeSpec, "byte": abi.ByteTypeSpec, "uint8": abi.Uint8TypeSpec,
                "uint16": abi.Uint16TypeSpec, "uint32": abi.Uint32TypeSpec, "uint64": abi.Uint64TypeSpec,
                "address": abi.AddressTypeSpec, "string": abi.StringTypeSpec}[shape]()
    k = shape[0]
    if k == "sarr":
        return abi.StaticArrayTypeSpec(spec(shape[1]), shape[2])
    if k == "darr":
        return abi.DynamicArrayTypeSpec(spec(shape[1]))
    if k == "tuple":
        return abi.TupleTypeSpec(*[spec(s) for s in shape[1:]])
    if k == "ntuple":
        key = repr(shape)
        if key not in _NT_CACHE:
            ann = {}
            for i, s in enumerate(shape[1:]):
                ann["f%d" % i] = abi.Field[spec(s).annotation_type()]
            _NT_CACHE[key] = type("NT%d" % len(_NT_CACHE), (abi.NamedTuple,), {"__annotations__": ann})
        return _NT_CACHE[key]().type_spec()
    raise AssertionError(shape)


def decoy_instance(shape):
    """an instance of ANOTHER NamedTuple class that uses the same field names as spec(shape) at rotated
    positions (position j is called f<(j+1) mod n>): two user types that share field names"""
    assert shape[0] == "ntuple"
    key = "decoy" + repr(shape)
    if key not in _NT_CACHE:
        n = len(shape) - 1
        ann = {}
        for j, s in enumerate(shape[1:]):
            ann["f%d" % ((j + 1) % n)] = abi.Field[spec(s).annotation_type()]
        _NT_CACHE[key] = type("NTD%d" % len(_NT_CACHE), (abi.NamedTuple,), {"__annotations__": ann})
    return _NT_CACHE[key]()


def sig(shape):
    """ARC-4 signature string written independently of PyTeal"""
    if is_bytes_shape(shape):
        return "byte[]" if shape == "dbytes" else "byte[%s]" % shape[6:]
    if isinstance(shape, str):
        return shape
    k = shape[0]
    if k == "sarr":
        return "%s[%d]" % (sig(shape[1]), shape[2])
    if k == "darr":
        return "%s[]" % sig(shape[1])
    return "(" + ",".join(sig(s) for s in shape[1:]) + ")"


def sdk_type(shape):
    return sdkabi.ABIType.from_string(sig(shape))


def to_sdk(shape, v):
    if is_bytes_shape(shape):
        return list(bytes(v))
    if isinstance(shape, str):
        if shape == "address":
            return bytes(v)
        if shape == "string":
            return bytes(v).decode("utf-8")
        return v
    k = shape[0]
    if k in ("sarr", "darr"):
        return [to_sdk(shape[1], x) for x in v]
    return [to_sdk(s, x) for s, x in zip(shape[1:], v)]


def encode(shape, v):
    return sdk_type(shape).encode(to_sdk(shape, v))


def leaf_values(shape, rich=False):
    if shape == "bool":
        return [False, True]
    if shape in BITS:
        m = (1 << BITS[shape]) - 1
        return [0, 1, m] if rich else [0, m]
    if shape == "address":
        return [bytes(32), bytes(range(32))]
    if shape == "dbytes":
        return [b"", b"\x00\xff", b"q" * 300]
    if is_bytes_shape(shape):
        n = int(shape[6:])
        return [bytes(n), bytes((0xf0 + i) % 256 for i in range(n))]
    if shape == "string":
        # 300 bytes crosses the one-byte length boundary of the uint16 length prefix
        return [b"", b"a", b"xyz" * 30, b"q" * 300] if rich else [b"", b"hi", b"q" * 300]
    raise AssertionError(shape)


def values(shape, cap=8, rich=False):
    """boundary-value combinations for a shape (capped; the cap is part of the stated bound)"""
    if isinstance(shape, str):
        return leaf_values(shape, rich)
    k = shape[0]
    if k == "sarr":
        ev = values(shape[1], cap, rich)
        n = shape[2]
        out = [[ev[0]] * n, [ev[-1]] * n]
        if n > 1:
            out.append([ev[i % len(ev)] for i in range(n)])
            out.append([ev[(i + 1) % len(ev)] for i in range(n)])
        return _dedup(out)[:cap]
    if k == "darr":
        ev = values(shape[1], cap, rich)
        out = [[], [ev[0]], [ev[-1]], [ev[i % len(ev)] for i in range(2)], [ev[(i + 1) % len(ev)] for i in range(3)]]
        if shape[1] == "bool":
            # bit-packing boundaries
            out = [[], [True], [i % 3 == 0 for i in range(8)], [i % 2 == 0 for i in range(9)], [i % 5 != 0 for i in range(17)]]
        return _dedup(out)[:cap]
    cols = [values(s, cap, rich) for s in shape[1:]]
    if not cols:
        return [[]]
    out = [[c[0] for c in cols], [c[-1] for c in cols]]
    # alternate: each position takes its other extreme while the rest stay
    for i in range(len(cols)):
        row = [c[0] for c in cols]
        row[i] = cols[i][-1]
        out.append(row)
        row = [c[-1] for c in cols]
        row[i] = cols[i][0]
        out.append(row)
    full = 1
    for c in cols:
        full *= len(c)
    if full <= cap:
        out = [list(t) for t in itertools.product(*cols)]
    return _dedup(out)[:cap]


def _dedup(lst):
    seen = []
    for x in lst:
        if x not in seen:
            seen.append(x)
    return seen


def depth(shape):
    if isinstance(shape, str):
        return 0
    return 1 + max([depth(s) for s in shape[1:] if not isinstance(s, int)] or [0])


# ------------------------------------------------------------------ shape universes
def bool_runs(kmax=17):
    out = []
    for pre in ([], ["uint8"], ["string"]):
        for k in range(1, kmax + 1):
            for suf in ([], ["uint16"], ["string"]):
                out.append(["tuple"] + pre + ["bool"] * k + suf)
    return out


def shapes(tier):
    out = list(BASE)
    d1 = []
    for b in BASE:
        for n in (1, 2, 3, 9):
            d1.append(["sarr", b, n])
        d1.append(["darr", b])
    for n in (7, 8, 16, 17):
        d1.append(["sarr", "bool", n])
    tuples =[["tuple", a] for a in BASE] + [["tuple", a, b] for a in BASE for b in BASE]
    if tier == "thorough":
        tuples += [["tuple", a, b, c] for a in BASE for b in BASE for c in BASE]
    named = [["ntuple", a] for a in BASE] + [["ntuple", a, b] for a in ("bool", "uint16", "string", "address") for b in BASE]
    out += d1 + tuples + named + bool_runs(17 if tier == "thorough" else 17)
    d2 = []
    comp = [["sarr", "bool", 9], ["sarr", "uint16", 2], ["darr", "uint8"], ["darr", "string"], ["darr", "bool"],
            ["tuple", "uint8", "string"], ["tuple", "bool", "bool"], ["sarr", "string", 2], ["tuple", "string", "string"]]
    if tier == "thorough":
        comp = d1 + [t for t in tuples if len(t) == 3][:30]
    for c in comp:
        d2.append(["sarr", c, 2])
        d2.append(["darr", c])
        d2.append(["tuple", c, "uint16"])
        d2.append(["tuple", "bool", c])
        d2.append(["tuple", c, c])
    out += d2
    # every tuple of arity 3..5 (thorough: 6) over {bool, byte, string}: bool runs interrupted by static
    # elements between dynamic ones, dynamic elements at every position
    small = ["bool", "byte", "string"]
    for n in range(3, 7 if tier == "thorough" else 6):
        for t in itertools.product(small, repeat=n):
            out.append(["tuple"] + list(t))
    out.append(["tuple", "string", "bool", "uint64", "bool", "bool", "byte", "bool", "string"])
    out.append(["ntuple", "string", "bool", "byte", "bool", "string"])
    # members at byte offsets of 255 / 256 and beyond (constant offsets that no longer fit an immediate)
    out.append(["tuple", ["sarr", "byte", 200], ["sarr", "byte", 100], "address"])
    out.append(["tuple", ["sarr", "byte", 255], "byte", "address"])
    out.append(["tuple", ["sarr", "byte", 254], "uint16", ["sarr", "uint8", 3]])
    out.append(["tuple", ["sarr", "byte", 256], "uint16", ["sarr", "uint8", 3], "bool"])
    out.append(["tuple", ["sarr", "byte", 253], "string", "address", "string"])
    out.append(["tuple", ["sarr", "uint64", 32], "uint64", ["tuple", "uint8", "uint16"]])
    out.append(["sarr", "address", 9])
    # byte[N] / byte[] in their bytes-valued flavours (abi.StaticBytes / abi.DynamicBytes), alone and as members
    for b in ("sbytes1", "sbytes4", "sbytes8", "sbytes32", "dbytes"):
        out += [b, ["tuple", b], ["tuple", b, "uint8"], ["tuple", "bool", b, "bool"], ["sarr", b, 2], ["darr", b],
                ["tuple", "string", b]]
    # neighbouring members of ONE aggregate class but different sizes, nested so that the tuple's own static
    # length matters (element of an outer tuple, element type of arrays)
    for a, b in ((["sarr", "byte", 4], ["sarr", "byte", 8]), (["sarr", "uint8", 2], ["sarr", "uint16", 3]),
                 (["sarr", "bool", 3], ["sarr", "bool", 9]), (["tuple", "uint8", "uint8"], ["tuple", "uint64"]),
                 ("sbytes4", "sbytes8")):
        for t in (["tuple", a, b], ["tuple", b, a, a]):
            out += [["tuple", t, "uint8"], ["sarr", t, 2], ["darr", t], ["tuple", "bool", t, "uint16"]]
    out.append(["sarr", ["tuple", "uint64", "address"], 8])
    # de-duplicate
    seen, res = set(), []
    for s in out:
        k = repr(s)
        if k not in seen:
            seen.add(k)
            res.append(s)
    return res


# ------------------------------------------------------------------ builders
_SUBCLS = {}


def sub_instance(shape):
    """an instance of a trivial USER SUBCLASS of the ABI value class of a base type (class Flag(abi.Bool): pass):
    same type spec, other Python class"""
    assert isinstance(shape, str)
    if shape not in _SUBCLS:
        base = type(spec(shape).new_instance())
        _SUBCLS[shape] = type("User" + base.__name__, (base,), {})
    return _SUBCLS[shape]()


def make(shape, v, mode, steps, inst=None, _share=None, _sub=False):
    """build an instance holding v (or fill the given one); appends the setup expressions to steps;
    mode 'lit' | 'expr' | 'lit-shared' (equal parts of equal type are ONE ABI object used at several positions,
    as in `t.set(flag, other, flag)`)"""
    sp = spec(shape)
    if mode == "lit-shared":
        mode, _share = "lit", ({} if _share is None else _share)
    if mode == "lit-sub":
        # every base-type part is an instance of a user subclass of its ABI class
        mode, _sub = "lit", True
    if _sub and inst is None and isinstance(shape, str) and not is_bytes_shape(shape):
        inst = sub_instance(shape)
    if _share is not None and inst is None:
        key = (repr(shape), repr(v))
        if key in _share:
            return _share[key]
        inst = sp.new_instance()
        _share[key] = inst
    if inst is None:
        inst = sp.new_instance()
    if isinstance(shape, str):
        if shape == "bool":
            steps.append(inst.set(v if mode == "lit" else pt.Int(1 if v else 0)))
        elif shape in BITS:
            steps.append(inst.set(v if mode == "lit" else pt.Int(v)))
        elif shape == "address":
            steps.append(inst.set(bytes(v) if mode == "lit" else pt.Bytes(bytes(v))))
        elif shape == "string" or is_bytes_shape(shape):
            steps.append(inst.set(bytes(v) if mode == "lit" else pt.Bytes(bytes(v))))
        return inst
    k = shape[0]
    if k in ("sarr", "darr"):
        elems = [make(shape[1], x, mode, steps, _share=_share, _sub=_sub) for x in v]
        steps.append(inst.set(elems))
        return inst
    elems = [make(s, x, mode, steps, _share=_share, _sub=_sub) for s, x in zip(shape[1:], v)]
    steps.append(inst.set(*elems))
    return inst


def encode_program(shape, v, mode, backend):
    """program that assembles the value from its parts and logs its encoding"""
    def body():
        steps = []
        inst = make(shape, v, mode, steps)
        return pt.Seq(*steps, pt.Log(inst.encode()))
    if backend == "main":
        return pt.Seq(body(), pt.Int(1))
    if backend.startswith("crowded"):
        # the value is the OUTPUT of an ABI-returning subroutine that first brings `pad` other ABI values to life (the
        # parts then straddle the end of the addressable frame: some live in the frame, the rest in scratch slots)
        pad = int(backend[len("crowded"):])
        sp = spec(shape)

        def crowded(*, output):
            pads = [pt.abi.Uint64() for _ in range(pad)]
            steps = [x.set(pt.Int(900000 + i)) for i, x in enumerate(pads)]
            make(shape, v, mode, steps, inst=output)
            steps += [pt.Assert(x.get() == pt.Int(900000 + i)) for i, x in enumerate(pads)]
            return pt.Seq(*steps)
        crowded.__annotations__ = {"output": sp.annotation_type(), "return": pt.Expr}
        asub = pt.ABIReturnSubroutine(crowded)
        res = sp.new_instance()
        return pt.Seq(asub().store_into(res), pt.Log(res.encode()), pt.Int(1))

    def assemble_in_subroutine():
        return body()
    sub = pt.Subroutine(pt.TealType.none)(assemble_in_subroutine)
    return pt.Seq(sub(), pt.Int(1))
