"""Entry point: ./run <ID> --tier quick|thorough | --replay <path> ; ./run selftest"""
import argparse
import importlib
import os
import sys
import threading
import traceback

from . import common


def _main():
    ap = argparse.ArgumentParser()
    ap.add_argument("id")
    ap.add_argument("--tier", default=os.environ.get("VERIF_TIER", "quick"), choices=["quick", "thorough"])
    ap.add_argument("--replay")
    a = ap.parse_args()
    if a.id == "selftest":
        from .avm import selftest
        return selftest.main()
    pid = a.id.upper()
    common.disable_expr_traces()
    mod = importlib.import_module("vf.checks.%s" % pid.lower())
    if pid != "C20":
        sys.setrecursionlimit(common.RECURSION_LIMIT)
    if a.replay:
        with open(a.replay) as fh:
            case = common.jloads(fh.read())
        bad = mod.replay(case)
        print("replay: %s" % ("VIOLATION reproduced" if bad else "no violation"))
        return 1 if bad else 0
    from .avm import selftest
    if selftest.main(quiet=True) != 0:
        print("machinery error: AVM self-test failed", file=sys.stderr)
        return 2
    return mod.run(a.tier)


def main():
    rc = [2]

    def target():
        try:
            rc[0] = _main()
        except common.MachineryError as e:
            print("MACHINERY ERROR: %s" % e, file=sys.stderr)
            rc[0] = 2
        except SystemExit as e:
            rc[0] = e.code if isinstance(e.code, int) else 2
        except BaseException:
            traceback.print_exc()
            rc[0] = 2

    threading.stack_size(512 * 1024 * 1024)
    t = threading.Thread(target=target)
    t.start()
    t.join()
    sys.stdout.flush()
    os._exit(rc[0])


if __name__ == "__main__":
    main()
