"""C12 - assembleConstants changes how constants load, not their values.

(a) every sequence of <= k constant loads over an alphabet of spellings (frequency ties,
    the 'top four or >= 128' rule, equal values with different spellings all occur);
(b) k distinct constants each used twice for every k in 1..300 (crossing 4 and 255);
(c) control-flow recipes compiled both ways.
Oracle: site-by-site - the value denoted by the pseudo-op in the plain compile equals the
value the constant-block form loads; every index is inside the block and encodable; plus
differential execution.
"""
import itertools

import pyteal as pt

from .. import common, drive
from ..avm import asm, interp
from ..recipe import build as rb
from ..recipe import gen_ctrl

PID = "C12"
GOOD_ADDR = "AAAAAAAAAAAAAAAAAAAAAAAAAAAAAAAAAAAAAAAAAAAAAAAAAAAAY5HFKQ"


def _tmpl_like_addr():
    import base64
    from algosdk import encoding as sdkenc
    pk = base64.b32decode("TMPL" + "A" * 52)[:32]
    return sdkenc.encode_address(pk)


TMPL_LIKE_ADDR = _tmpl_like_addr()

SPELL = {
    "i0": lambda: pt.Int(0), "i1": lambda: pt.Int(1), "i127": lambda: pt.Int(127), "i128": lambda: pt.Int(128),
    "imax": lambda: pt.Int((1 << 64) - 1), "optin": lambda: pt.OnComplete.OptIn, "pay": lambda: pt.TxnType.Payment,
    "ti": lambda: pt.Tmpl.Int("TMPL_I"),
    "ba": lambda: pt.Bytes("a"), "b16": lambda: pt.Bytes("base16", "61"), "b64": lambda: pt.Bytes("base64", "YQ=="),
    "b32": lambda: pt.Bytes("base32", "ME"), "be": lambda: pt.Bytes(""), "be16": lambda: pt.Bytes("base16", ""),
    "addr": lambda: pt.Addr(GOOD_ADDR), "meth": lambda: pt.MethodSignature("f()void"),
    "tb": lambda: pt.Tmpl.Bytes("TMPL_B"), "bq": lambda: pt.Bytes('q"\\\n;//'),
    "bu": lambda: pt.Bytes("\u00e9\U0001f600"), "bs": lambda: pt.Bytes('\\"\x00\t'),
    # byte strings whose TEXT is the text of a constant of another kind (method signature, address, hex
    # literal, template name): equal spelling, different value
    "bmeth": lambda: pt.Bytes("f()void"), "baddr": lambda: pt.Bytes(GOOD_ADDR), "b0x": lambda: pt.Bytes("0x61"),
    "btm": lambda: pt.Bytes("TMPL_B"),
    # literals with blanks at their ends: the blanks belong to the value
    "methsp": lambda: pt.MethodSignature("f()void "), "methtab": lambda: pt.MethodSignature("\tf()void"),
    "bsp": lambda: pt.Bytes(" a "),
    # a real address whose text begins like a template placeholder (no underscore: still an address)
    "addr_tmpl": lambda: pt.Addr(TMPL_LIKE_ADDR),
}
RANK_POOL = {
    "s0": lambda: pt.Int(0), "s1": lambda: pt.Int(1), "s2": lambda: pt.Int(2), "s3": lambda: pt.Int(3),
    "s5": lambda: pt.Int(5), "s127": lambda: pt.Int(127), "L128": lambda: pt.Int(128), "L1000": lambda: pt.Int(1000),
    "T": lambda: pt.Tmpl.Int("TMPL_X"), "E": lambda: pt.OnComplete.DeleteApplication,
    "ba": lambda: pt.Bytes("a"), "bb": lambda: pt.Bytes("b"), "bc": lambda: pt.Bytes("base16", "63"), "bd": lambda: pt.Bytes("d"),
    "be": lambda: pt.Bytes("e"), "bf": lambda: pt.Bytes("base64", "Zg=="), "bT": lambda: pt.Tmpl.Bytes("TMPL_Y"),
}
def _lits():
    """per-kind populations: every named constant, every base32 / base64 / base16 length class, texts with special
    first characters"""
    import base64
    L = {}
    for nm in ("Unknown", "Payment", "KeyRegistration", "AssetConfig", "AssetTransfer", "AssetFreeze", "ApplicationCall"):
        L["txntype." + nm] = (lambda nm=nm: getattr(pt.TxnType, nm))
    for nm in ("NoOp", "OptIn", "CloseOut", "ClearState", "UpdateApplication", "DeleteApplication"):
        L["oncomplete." + nm] = (lambda nm=nm: getattr(pt.OnComplete, nm))
    for n in range(0, 12):
        raw = bytes(range(0x61, 0x61 + n))
        b32 = base64.b32encode(raw).decode()
        L["b32pad.%d" % n] = (lambda t=b32: pt.Bytes("base32", t))
        L["b32nopad.%d" % n] = (lambda t=b32.rstrip("="): pt.Bytes("base32", t))
        b64 = base64.b64encode(raw).decode()
        L["b64.%d" % n] = (lambda t=b64: pt.Bytes("base64", t))
        L["b16.%d" % n] = (lambda t=raw.hex(): pt.Bytes("base16", t))
        L["b16x.%d" % n] = (lambda t="0x" + raw.hex(): pt.Bytes("base16", t))
        L["raw.%d" % n] = (lambda t=raw: pt.Bytes(t))
    for i, t in enumerate(["\ufeff", "\ufeffabc", "\ufeff\ufeffz", "a\ufeff", "\ufffe", "\u200b", "\x00a", "\\x41", "\\", "\\n",
                           "\r", "\x7f", "\x80", "\xff", "\u0100", "0x", "base64(YQ==)", "//", "\"", "'", " ", "\t"]):
        L["text.%d" % i] = (lambda t=t: pt.Bytes(t))
    return L


LITS = _lits()
INTS = ["i0", "i1", "i127", "i128", "imax", "optin", "pay", "ti"]
BYTES = ["ba", "b16", "b64", "b32", "be", "be16", "addr", "meth", "tb", "bq", "bu", "bs", "bmeth", "baddr", "b0x", "btm", "methsp", "methtab", "bsp", "addr_tmpl"]


def seq_program(names):
    steps = []
    for k, nm in enumerate(names):
        e = SPELL[nm]()
        if nm in INTS:
            steps.append(pt.App.globalPut(pt.Bytes("base16", "%02x" % (0xE0 + k)), e))
        else:
            steps.append(pt.App.globalPut(pt.Bytes("base16", "%02x" % (0xE0 + k)), pt.Concat(e, pt.Bytes("base16", "%02x" % (0xE0 + k)))))
    return pt.Seq(*steps, pt.Int(1))


CONST_OPS = ("int", "byte", "addr", "method", "pushint", "pushbytes")


def site_check(plain_text, asm_text):
    """-> list of reasons (empty = fine)"""
    pa = asm.assemble(plain_text)
    pb = asm.assemble(asm_text)
    why = []
    plain_msgs = set(msg for _ln, msg in pa.issues)
    for ln, msg in pb.issues:
        if msg in plain_msgs:
            continue  # not introduced by the constant blocks (e.g. C04's loops-below-v4 finding)
        why.append("constant-block program does not assemble: line %d %s" % (ln, msg))
    intc, bytec = [], []
    ib = [i for i in pb.instrs if i.op not in ("intcblock", "bytecblock")]
    nblocks = {"intcblock": 0, "bytecblock": 0}
    for pos, i in enumerate(pb.instrs):
        if i.op in nblocks:
            nblocks[i.op] += 1
            if pos > 1 or (pos == 1 and pb.instrs[0].op not in nblocks):
                why.append("%s is not at the start of the program" % i.op)
            if i.op == "intcblock":
                intc = i.args[0] if i.args else []
            else:
                bytec = i.args[0] if i.args else []
    if nblocks["intcblock"] > 1 or nblocks["bytecblock"] > 1:
        why.append("more than one constant block of a kind")
    if len(ib) != len(pa.instrs):
        why.append("instruction count differs: %d plain vs %d (without blocks)" % (len(pa.instrs), len(ib)))
        return why
    for k, (x, y) in enumerate(zip(pa.instrs, ib)):
        if x.op in ("int", "byte", "addr", "method"):
            va = x.args[0] if x.args else None
            vb = "?"
            if y.op in ("int", "pushint", "byte", "pushbytes", "addr", "method"):
                vb = y.args[0] if y.args else None
            elif y.op == "intc":
                idx = y.args[0] if y.args else -1
                vb = intc[idx] if isinstance(idx, int) and 0 <= idx < len(intc) else ("index %r outside intcblock of %d" % (idx, len(intc)))
            elif y.op.startswith("intc_"):
                idx = int(y.op[5:])
                vb = intc[idx] if idx < len(intc) else "index %d outside intcblock" % idx
            elif y.op == "bytec":
                idx = y.args[0] if y.args else -1
                vb = bytec[idx] if isinstance(idx, int) and 0 <= idx < len(bytec) else ("index %r outside bytecblock of %d" % (idx, len(bytec)))
            elif y.op.startswith("bytec_"):
                idx = int(y.op[6:])
                vb = bytec[idx] if idx < len(bytec) else "index %d outside bytecblock" % idx
            else:
                vb = "not a constant load: %s" % y.op
            if isinstance(va, list):
                va = tuple(va)
            if isinstance(vb, list):
                vb = tuple(vb)
            ta = "int" if x.op == "int" else "bytes"
            tb = "int" if y.op in ("int", "pushint", "intc") or y.op.startswith("intc_") else "bytes"
            if va != vb or ta != tb:
                why.append("constant site %d (line %d: %s): plain value %r, constant-block form loads %r" % (
                    k, x.line, " ".join(x.raw), va, vb))
        else:
            if (x.op, x.args) != (y.op, y.args):
                why.append("non-constant instruction %d differs: %r vs %r" % (k, x, y))
    return why


def check_pair(build_fn, versions, out, meta, inputs=None, size=1):
    cnt, oc = out["counters"], out["outcomes"]
    for v in versions:
        try:
            plain = pt.compileTeal(build_fn(), pt.Mode.Application, version=v, assembleConstants=False)
        except drive.PT_ERRORS as e:
            oc["pterr"] = oc.get("pterr", 0) + 1
            continue
        except Exception as e:
            oc["crash_plain"] = oc.get("crash_plain", 0) + 1     # C20's business
            continue
        try:
            withc = pt.compileTeal(build_fn(), pt.Mode.Application, version=v, assembleConstants=True)
        except drive.PT_ERRORS as e:
            # "changes only how constants are loaded": a program that compiles without the option compiles with it
            oc["refused_with_option"] = oc.get("refused_with_option", 0) + 1
            out["violations"].append({"driver": meta["driver"], "size": size,
                                      "title": "%s v%d: compiles without assembleConstants, refused with it: %s" % (meta["driver"], v, str(e)[:120]),
                                      "meta": meta, "version": v, "features": {"why": "refused", "driver": meta["driver"]}})
            continue
        except Exception as e:
            oc["crash"] = oc.get("crash", 0) + 1
            out["violations"].append({"driver": meta["driver"], "size": size, "title": "compile crashed: %r" % (e,),
                                      "meta": meta, "version": v, "features": {"why": "crash"}})
            continue
        oc["ok"] = oc.get("ok", 0) + 1
        cnt["traces_validated"] = cnt.get("traces_validated", 0) + 1
        why = site_check(plain, withc)
        feats = {"driver": meta["driver"]}
        if why:
            feats["index_over_255"] = any("uint out of range" in w for w in why)
            feats["k_over_256"] = bool(meta.get("k", 0) > 256)
            out["violations"].append({"driver": meta["driver"], "size": size,
                                      "title": "%s v%d: %s" % (meta["driver"], v, why[0][:200]), "meta": meta, "version": v,
                                      "reasons": why[:5], "teal": withc if len(withc) < 4000 else withc[:4000],
                                      "features": feats})
            continue
        if inputs is not None and "TMPL_" not in plain:
            pa, pb = asm.assemble(plain), asm.assemble(withc)
            for inp in inputs:
                cfg = rb.Cfg(v, "A")
                ra = interp.run(pa, drive.ctx_for(inp, cfg), fuel=20000)
                rb_ = interp.run(pb, drive.ctx_for(inp, cfg), fuel=20000)
                cnt["executions"] = cnt.get("executions", 0) + 2
                if ra.key() != rb_.key():
                    out["violations"].append({"driver": meta["driver"], "size": size,
                                              "title": "%s v%d: behaviour differs with assembleConstants: %r vs %r" % (
                                                  meta["driver"], v, ra.key(), rb_.key()),
                                              "meta": meta, "version": v, "input": inp, "teal": withc,
                                              "features": dict(feats, why="behaviour")})


_VERSIONS = (3, 6, 10)


def _build_meta(meta):
    d = meta["driver"]
    if d == "seq":
        return lambda: seq_program(meta["names"])
    if d == "many":
        k, kind = meta["k"], meta["kind"]

        def b():
            steps = []
            for rep_ in range(2):
                for i in range(k):
                    if kind == "big":
                        steps.append(pt.Pop(pt.Int(1000 + i)))
                    elif kind == "small":
                        steps.append(pt.Pop(pt.Int(i % 128)))
                    else:
                        steps.append(pt.Pop(pt.Bytes("base16", "%04x" % i)))
            return pt.Seq(*steps, pt.Int(1))
        return b
    if d == "late":
        # `singles` constants used ONCE each, then `doubles` constants used twice each that are first seen after all
        # of them (their place in the constant block must not depend on how many constants were seen before)
        singles, doubles, kind = meta["singles"], meta["doubles"], meta["kind"]

        def b():
            def const(i):
                return pt.Int(1000 + i) if kind == "big" else pt.Bytes("base16", "%06x" % i)

            def eq(i):
                return const(i) == const(i)
            steps = [pt.Pop(const(i)) for i in range(singles)]
            steps += [pt.Assert(eq(singles + j)) for j in range(doubles)]
            return pt.Seq(*steps, pt.Int(1))
        return b
    if d == "lits":
        mk, uses, crowd = LITS[meta["lit"]], meta["uses"], meta["crowd"]

        def b():
            steps = []
            if crowd:
                # five other constants of each kind used three times: the literal under test competes for a place
                for rnd in range(3):
                    for j in range(5):
                        steps.append(pt.Pop(pt.Int(1000 + j)))
                        steps.append(pt.Pop(pt.Bytes("base16", "%04x" % (0xf000 + j))))
            steps += [pt.Pop(mk()) for _ in range(uses)]
            return pt.Seq(*steps, pt.Int(1))
        return b
    if d == "rank":
        # constants in a given frequency order: the i-th name is used FREQS[i] times, so its rank in the
        # frequency-sorted block is exactly i (ties keep first-use order)
        names, freqs = meta["names"], meta["freqs"]

        def b():
            steps = []
            for rnd in range(max(freqs)):
                for k, nm in enumerate(names):
                    if freqs[k] > rnd:
                        e = RANK_POOL[nm]()
                        steps.append(pt.Pop(e))
            return pt.Seq(*steps, pt.Int(1))
        return b
    if d == "ctrl":
        return lambda: rb.build(meta["recipe"], rb.Cfg(6, "A"), "gput")
    raise AssertionError(d)


def _worker(items, base):
    out = {"counters": {}, "outcomes": {}, "violations": [], "samples": []}
    basic = drive.make_inputs_basic()
    for meta in items:
        d = meta["driver"]
        inputs = basic[:1] if d == "seq" else (basic if d == "ctrl" else basic[:1])
        check_pair(_build_meta(meta), _VERSIONS if d not in ("many", "rank", "late", "lits") else (3, 6), out, meta, inputs, size=meta.get("size", 1))
        out["counters"]["states"] = out["counters"].get("states", 0) + 1
        out["counters"]["transitions"] = out["counters"].get("transitions", 0) + meta.get("size", 1)
    if items and base % 4999 == 0:
        out["samples"].append(items[0])
    return out


def run(tier):
    global _VERSIONS
    rep = common.Report(PID, tier)
    rep.rule = ("(a) every sequence of <= k constant loads over the spelling alphabet; (b) k distinct constants used twice "
                "for every k in the list; (c) control-flow recipes; each compiled with and without assembleConstants and "
                "compared site by site through the independent literal decoder, then executed both ways")
    _VERSIONS = (3, 6, 10) if tier == "quick" else (3, 4, 5, 6, 8, 10)
    items = []
    k = 3 if tier == "quick" else 4
    for n in range(1, k + 1):
        for names in itertools.product(INTS + BYTES, repeat=n):
            items.append({"driver": "seq", "names": list(names), "size": n})
    # longer sequences on the value-colliding sub-alphabets
    for n in range(k + 1, k + 3):
        for names in itertools.product(["i1", "i128", "optin", "pay"], repeat=n):
            items.append({"driver": "seq", "names": list(names), "size": n})
        for names in itertools.product(["ba", "b16", "b64", "be"], repeat=n):
            items.append({"driver": "seq", "names": list(names), "size": n})
    ks = list(range(1, 9)) + [100, 127, 128, 129, 200, 254, 255, 256, 257, 258, 300] if tier == "quick" else list(range(1, 301))
    for kk in ks:
        for kind in ("big", "small", "bytes"):
            items.append({"driver": "many", "k": kk, "kind": kind, "size": kk})
    for singles in ((0, 1, 5, 300, 999, 1000, 1001, 1100, 2001) if tier == "quick" else
                    (list(range(0, 20)) + list(range(990, 1012)) + [300, 500, 1100, 1500, 1999, 2000, 2001, 2500, 3001])):
        for doubles in (1, 2, 5):
            for kind in ("big", "bytes"):
                items.append({"driver": "late", "singles": singles, "doubles": doubles, "kind": kind, "size": singles + doubles})
    for nm in LITS:
        for uses in (1, 2, 4):
            for crowd in (False, True):
                items.append({"driver": "lits", "lit": nm, "uses": uses, "crowd": crowd, "size": uses})
    # frequency-rank driver: every ordering of 7 int constants (small / >=128 / template / named) and of 7 byte
    # constants over the frequency profile (4,4,3,3,2,2,2), plus profiles with ties and singletons
    int_pool = ["s0", "s1", "s2", "s3", "s5", "L1000", "T"]
    int_pool2 = ["s1", "s127", "L128", "E", "s5", "T", "L1000"]
    byte_pool = ["ba", "bb", "bc", "bd", "be", "bf", "bT"]
    profiles = [(4, 4, 3, 3, 2, 2, 2)] if tier == "quick" else [(4, 4, 3, 3, 2, 2, 2), (2, 2, 2, 2, 2, 2, 2), (3, 3, 3, 3, 2, 2, 1)]
    for prof in profiles:
        for pool in (int_pool, int_pool2, byte_pool):
            for names in itertools.permutations(pool):
                items.append({"driver": "rank", "names": list(names), "freqs": list(prof), "size": 7})
    g = gen_ctrl.Grammar()
    for n, b in g.programs(2 if tier == "quick" else 3):
        if not gen_ctrl.has_unreachable(b):
            items.append({"driver": "ctrl", "recipe": gen_ctrl.make_program(b, "implicit"), "size": n})
    rep.bounds["cases"] = len(items)
    rep.bounds["seq_max_len"] = k
    rep.bounds["versions"] = list(_VERSIONS)
    for sh in common.pmap_shards(_worker, items, order_seed=rep.seed):
        rep.merge(sh)
    rep.counters["distinct_nontrivial"] = rep.counters.get("states", 0)
    rep.assumptions = ["literal grammar of vf/avm/tokens.py", "reference AVM for the differential runs"]
    if not rep.outcomes.get("ok"):
        raise common.MachineryError("vacuous")
    return rep.finish()


def replay(case):
    out = {"counters": {}, "outcomes": {}, "violations": [], "samples": []}
    check_pair(_build_meta(case["meta"]), (case["version"],), out, case["meta"], drive.make_inputs_basic())
    for v in out["violations"]:
        print("still violates:", v["title"])
    return bool(out["violations"])
