"""C20 - compilation is total: TEAL or one of PyTeal's own errors, never a crash;
and valid programs are accepted.

Exhaustive enumeration of control-flow shapes (with and without a leading store,
in main and inside a subroutine), degenerate shapes and long programs, under every
version / option setting.  Runs with the interpreter's DEFAULT recursion limit.
"""
import sys

import pyteal as pt

from .. import common, drive
from ..recipe import build as rb
from ..recipe import gen_ctrl

PID = "C20"


def configs(tier):
    cf = []
    if tier == "quick":
        for v in (2, 4, 5, 6, 8, 9, 10):
            cf.append(rb.Cfg(v, "A"))
        for v in (4, 6, 10):
            cf.append(rb.Cfg(v, "A", scratch_slots=True))
        cf.append(rb.Cfg(8, "A", scratch_slots=True, frame_pointers=False))
        cf.append(rb.Cfg(6, "S"))
        return cf
    for v in range(2, 11):
        cf.append(rb.Cfg(v, "A"))
        cf.append(rb.Cfg(v, "A", scratch_slots=True))
        if v >= 8:
            cf.append(rb.Cfg(v, "A", scratch_slots=True, frame_pointers=False))
            cf.append(rb.Cfg(v, "A", scratch_slots=False, frame_pointers=False))
    cf.append(rb.Cfg(6, "S"))
    return cf


class CompileTimeout(Exception):
    """the compilation of one (small) program did not finish within the budget: it does not return TEAL"""


_BUDGET_S = 300


def _on_alarm(_sig, _frm):
    raise CompileTimeout("no result after %d s" % _BUDGET_S)


def classify(prog, cfg):
    import signal
    import threading
    if threading.current_thread() is not threading.main_thread():
        # (a replay runs in a helper thread with a large stack: no alarm there, the budget is for the sweeps)
        st, r = drive.compile_recipe(prog, cfg)
    else:
        old = signal.signal(signal.SIGALRM, _on_alarm)
        signal.alarm(_BUDGET_S)
        try:
            st, r = drive.compile_recipe(prog, cfg)
        except CompileTimeout as e:
            st, r = "crash", e
        finally:
            signal.alarm(0)
            signal.signal(signal.SIGALRM, old)
    if st == "ok":
        return "TEAL", None
    if st == "pterr":
        return type(r).__name__, r
    return "CRASH:" + type(r).__name__, r


_CFGS = None


def _new_out():
    return {"counters": {}, "outcomes": {}, "violations": [], "samples": []}


def _check(prog, cfgs, out, size, driver, must_accept, minver=2, extra=None):
    cnt, oc = out["counters"], out["outcomes"]
    for cfg in cfgs:
        if cfg.version < minver:
            continue
        cls, exc = classify(prog, cfg)
        cnt["traces_validated"] = cnt.get("traces_validated", 0) + 1
        oc[cls] = oc.get(cls, 0) + 1
        feats = dict(extra or {}, driver=driver, outcome=cls)
        rec_prog = prog
        if driver in ("deep-expr", "deep-if", "deep-then"):
            # a term nested hundreds of levels deep cannot be serialised: the record names its generator
            rec_prog = dict(prog, main={"__gen__": driver, "n": size})
        if cls.startswith("CRASH:"):
            out["violations"].append({
                "driver": driver, "size": size, "kind": "crash",
                "title": "%s: compile died with %s: %s (v%d %s)" % (driver, cls[6:], str(exc)[:80], cfg.version, cfg.mode),
                "recipe": rec_prog, "cfg": cfg.to_json(), "features": dict(feats, kind="crash"),
            })
        elif cls != "TEAL" and must_accept and (cfg.mode == "A"):
            out["violations"].append({
                "driver": driver, "size": size, "kind": "rejected_valid",
                "title": "%s: valid program rejected with %s: %s (v%d)" % (driver, cls, str(exc)[:100], cfg.version),
                "recipe": rec_prog, "cfg": cfg.to_json(), "features": dict(feats, kind="rejected_valid"),
            })


def _worker(items, base):
    out = _new_out()
    for size, prog, driver, must_accept, minver, extra in items:
        _check(prog, _CFGS, out, size, driver, must_accept, minver, extra)
        out["counters"]["states"] = out["counters"].get("states", 0) + 1
        out["counters"]["transitions"] = out["counters"].get("transitions", 0) + max(1, size)
    if items and base % 1499 == 0:
        out["samples"].append({"driver": items[0][2], "recipe": items[0][1]})
    return out


def deep_expr(n):
    t = ["Int", 1]
    for _ in range(n):
        t = ["BitwiseXor", t, ["Int", 1]]
    return t


def long_programs(tier):
    """straight-line programs and nested-If chains of growing size"""
    step = 100 if tier == "quick" else 50
    out = []
    for n in list(range(1, 3001, step)) + [3000]:
        main = ["Seq"] + [["Assert", ["Int", 1]]] * n + [["Int", 1]]
        out.append((n, {"mode": "A", "vars": {}, "subs": {}, "main": main}, "long-seq", True, 3,
                    {"n": n, "n_over_900": n > 900}))
    depths = list(range(1, 401, 40 if tier == "quick" else 13)) + [400]
    for d in depths:
        t = ["TickS", 1]
        for _ in range(d):
            t = ["If", ["Int", 1], t, ["TickS", 2]]
        out.append((d, {"mode": "A", "vars": {}, "subs": {}, "main": ["Seq", t, ["Int", 1]]}, "deep-if", True, 2,
                    {"n": d, "n_over_900": False, "depth_over_150": d > 150}))
    for d in ([10, 40, 150] if tier == "quick" else [10, 20, 30, 40, 80, 150, 300]):
        # conditionals WITHOUT an else arm nested in each other's then arm
        t = ["TickS", 1]
        for _ in range(d):
            t = ["If", ["Int", 1], t]
        out.append((d, {"mode": "A", "vars": {}, "subs": {}, "main": ["Seq", t, ["Int", 1]]}, "deep-then", True, 2,
                    {"n": d, "n_over_900": False, "depth_over_150": d > 150}))
    for n in ([10, 100, 400, 600, 1100] if tier == "quick" else [10, 50, 100, 200, 400, 450, 500, 600, 800, 950, 1100, 2000]):
        # long operand chains (x ^ 1 ^ 1 ... as a user's reduce() over a list builds them): expression depth,
        # not block count
        out.append((n, {"mode": "A", "vars": {}, "subs": {}, "main": deep_expr(n)}, "deep-expr", True, 2,
                    {"n": n, "n_over_900": False, "depth_over_150": n > 150, "depth_over_450": n > 450}))
    # many variables, some of them with requested slot ids, within the 256-slot limit
    for n, nreq in ([(200, 100), (256, 1), (256, 128), (130, 64)] if tier == "quick" else
                    [(200, 100), (256, 1), (256, 128), (256, 255), (256, 256), (130, 64), (129, 128), (255, 200)]):
        vs = {("v%d" % i): (["u", 255 - i] if i < nreq else "u") for i in range(n)}
        main = ["Seq"] + [["Store", v, ["Int", 1]] for v in vs] + [["Load", "v0"]]
        out.append((n, {"mode": "A", "vars": vs, "subs": {}, "main": main}, "many-slots", True, 2,
                    {"n": n, "n_over_900": False, "requested": nreq}))
    for n in ([200, 550] if tier == "quick" else [100, 400, 800, 1100]):
        main = ["Seq"] + [["If", ["Int", 1], ["TickS", 1]]] * n + [["Int", 1]]
        out.append((n, {"mode": "A", "vars": {}, "subs": {}, "main": main}, "long-if-seq", True, 5,
                    {"n": n, "n_over_900": n > 900}))
    for n in ([150, 400] if tier == "quick" else [100, 400, 800]):
        w = ["While", ["Lt", ["Load", "ctr"], ["Int", 1]], ["Store", "ctr", ["Int", 1]]]
        main = ["Seq", ["Store", "ctr", ["Int", 0]]] + [w] * n + [["Int", 1]]
        out.append((n, {"mode": "A", "vars": {"ctr": "u"}, "subs": {}, "main": main}, "long-while-seq", True, 5,
                    {"n": n, "n_over_900": n > 900}))
    return out


def invalid_programs():
    """ill-formed programs: the outcome must be one of PyTeal's own errors (or TEAL), never a crash"""
    P = lambda main, **kw: dict({"mode": "A", "vars": {"ctr": "u", "b": "b"}, "subs": {}, "main": main}, **kw)
    out = [
        P(["Seq", ["Break"], ["Int", 1]]),
        P(["Seq", ["Continue"], ["Int", 1]]),
        P(["Seq", ["If", ["Int", 1], ["Seq", ["Break"]]], ["Int", 1]]),
        P(["Seq", ["TickS", 1]]),
        P(["Seq"]),
        P(["Bytes", "00"]),
        P(["Seq", ["Int", 1], ["Int", 1]]),
        P(["Add", ["Int", 1], ["Bytes", "00"]]),
        P(["If", ["Int", 1], ["Int", 1], ["Bytes", "00"]]),
        P(["If", ["Bytes", "00"], ["Int", 1], ["Int", 2]]),
        P(["Seq", ["While", ["Bytes", "00"], ["Seq"]], ["Int", 1]]),
        P(["Seq", ["While", ["Int", 1], ["Int", 1]], ["Int", 1]]),
        P(["Cond", [[["Int", 1], ["Int", 1]], [["Int", 1], ["Bytes", "00"]]]]),
        P(["Seq", ["Store", "ctr", ["Bytes", "00"]], ["Int", 1]]),
        P(["Seq", ["Pop", ["Load", "ctr"]], ["Int", 1]]),
        P(["Seq", ["Assert", ["Bytes", "00"]], ["Int", 1]]),
        P(["Seq", ["Log", ["Int", 1]], ["Int", 1]]),
        P(["Int", -1]),
        P(["Int", 1 << 64]),
        P(["Seq", ["Return"], ["Int", 1]]),
        P(["Seq", ["Exit", ["Bytes", "00"]]]),
        P(["Seq", ["For", ["Int", 1], ["Int", 1], ["Seq"], ["Seq"]], ["Int", 1]]),
        P(["Exit", ["Call", "f"]], subs={"f": {"params": [], "ret": "u", "body": ["Seq", ["TickS", 1]], "locals": []}}),
        P(["Exit", ["Call", "f"]], subs={"f": {"params": [], "ret": "u", "body": ["Return", ["Bytes", "00"]], "locals": []}}),
        P(["Seq", ["Call", "f"], ["Int", 1]], subs={"f": {"params": [], "ret": "none", "body": ["Return", ["Int", 1]], "locals": []}}),
        P(["Seq", ["Call", "f"], ["Int", 1]], subs={"f": {"params": [], "ret": "none", "body": ["Break"], "locals": []}}),
        P(["Seq", ["Call", "f"], ["Int", 1]], subs={"f": {"params": [], "ret": "none", "body": ["Pop", ["Load", "x"]], "locals": ["x"], "init_locals": False}}),
        P(["Seq", ["Call", "f", ["Int", 1]], ["Int", 1]], subs={"f": {"params": [], "ret": "none", "body": ["Seq"], "locals": []}}),
        P(["Seq", ["Call", "f"], ["Int", 1]], subs={"f": {"params": [["a", "val"]], "ret": "none", "body": ["Seq"], "locals": []}}),
        P(["Seq", ["Call", "f", ["Ref", "ctr"]], ["Int", 1]],
          subs={"f": {"params": [["a", "ref"]], "ret": "none", "body": ["Call", "f", ["Ref", "a"]], "locals": []}}),
    ]
    # too many slots
    many = {("v%d" % i): "u" for i in range(257)}
    out.append({"mode": "A", "vars": many, "subs": {},
                "main": ["Seq"] + [["Store", v, ["Int", 1]] for v in many] + [["Int", 1]]})
    out.append({"mode": "A", "vars": {"a": ["u", 5], "b": ["u", 5]}, "subs": {},
                "main": ["Seq", ["Store", "a", ["Int", 1]], ["Store", "b", ["Int", 2]], ["Load", "a"]]})
    return [(1, p, "invalid", False, 2, {}) for p in out]


def degenerate_programs():
    """hand-listed degenerate shapes named in the property statement (on top of the enumerations)"""
    out = []
    S = gen_ctrl._stmt
    loops = [("while", "c0", ()), ("while", "c1", (("break",),)), ("while", "cin", (("cont",),)),
             ("for", ()), ("for", (("break",),)), ("for", (("cont",),)),
             ("while", "c1", (("ifelse", "cin", (("cont",),), (("cont",),)),)),
             ("while", "cin", (("ifelse", "c0", (("break",),), (("cont",),)),)),
             ("while", "c0", (("empty",),)), ("for", (("empty",),))]
    for lp in loops:
        for bare in (True, False):
            for tail in ("approve", "int"):
                if lp[0] == "for" and bare:
                    # For uses its own counter; legal as first statement
                    pass
                body = (lp,)
                prog = gen_ctrl.make_bare_program(body, tail) if bare else gen_ctrl.make_program(body, "implicit")
                out.append((2, prog, "degenerate", True, 2, {}))
                out.append((2, gen_ctrl.make_sub_program(body, bare=True), "degenerate-sub", True, 4, {}))
                # loop as the first statement of a branch
                body2 = (("if", "cin", body),)
                out.append((3, gen_ctrl.make_bare_program(body2, tail), "degenerate", True, 2, {}))
                body3 = (("ifelse", "cin", body, body),)
                out.append((4, gen_ctrl.make_bare_program(body3, tail), "degenerate", True, 2, {}))
    # conditions containing an adjacent store/load (optimiser walks the cycle)
    for loop in ("while", "for"):
        cond = ["Seq", ["Store", "ctr", ["Int", 0]], ["Lt", ["Load", "ctr"], ["Int", 1]]]
        if loop == "while":
            main = ["Seq", ["While", cond, ["Seq", ["Break"]]], ["Int", 1]]
        else:
            main = ["Seq", ["For", ["Seq"], cond, ["Seq"], ["Seq", ["Continue"], ]], ["Int", 1]]
        out.append((3, {"mode": "A", "vars": {"ctr": "u"}, "subs": {}, "main": main}, "optimizer-cycle", True, 2, {}))
    # Cond with one arm, empty Seq at every position, Return in every position
    out.append((1, {"mode": "A", "vars": {}, "subs": {}, "main": ["Cond", [[["Int", 1], ["Int", 1]]]]}, "degenerate", True, 2, {}))
    out.append((1, {"mode": "A", "vars": {}, "subs": {}, "main": ["Seq", ["Seq"], ["Seq", ["Seq"]], ["Int", 1]]}, "degenerate", True, 2, {}))
    out.append((1, {"mode": "A", "vars": {}, "subs": {}, "main": ["Seq", ["If", ["Int", 1], ["Seq"]], ["Int", 1]]}, "degenerate", True, 2, {}))
    out.append((1, {"mode": "A", "vars": {}, "subs": {}, "main": ["Seq", ["If", ["Int", 1], ["Seq"], ["Seq"]], ["Int", 1]]}, "degenerate", True, 2, {}))
    out.append((1, {"mode": "A", "vars": {}, "subs": {}, "main": ["Seq", ["While", ["Int", 0], ["Seq"]], ["Int", 1]]}, "degenerate", True, 2, {}))
    return out


def run(tier):
    global _CFGS
    rep = common.Report(PID, tier)
    rep.rule = ("every control-flow recipe up to the node bound (with a leading store, bare, and inside a subroutine), "
                "hand-listed degenerate shapes and long programs, compiled under every configuration; the outcome "
                "class (TEAL / PyTeal error type / crash type) is the observation; valid recipes (no unreachable "
                "statement) must be accepted")
    _CFGS = configs(tier)
    rep.bounds["configs"] = [repr(c) for c in _CFGS]
    rep.bounds["recursion_limit"] = sys.getrecursionlimit()
    full_n = 3 if tier == "quick" else 4
    bare_n = 3 if tier == "quick" else 4
    items = []
    g = gen_ctrl.Grammar()
    for n, b in g.programs(full_n):
        ok = not gen_ctrl.has_unreachable(b)
        items.append((n, gen_ctrl.make_program(b, "implicit"), "ctrl", ok, 2, {}))
        if gen_ctrl.has_repeated_stmt(b):
            items.append((n, dict(gen_ctrl.make_program(b, "implicit"), share=True), "ctrl-shared", ok, 2, {}))
        if "retv" not in str(b):
            items.append((n, gen_ctrl.make_sub_program(b), "ctrl-sub", ok, 4, {}))
    bg = gen_ctrl.Grammar(gen_ctrl.BARE_ATOMS, gen_ctrl.FULL_COMPOUNDS, gen_ctrl.BARE_CONDS)
    for n, b in bg.programs(bare_n):
        ok = not gen_ctrl.has_unreachable(b)
        items.append((n, gen_ctrl.make_bare_program(b, "approve"), "bare", ok, 2, {}))
        items.append((n, gen_ctrl.make_sub_program(b, bare=True), "bare-sub", ok, 4, {}))
    lg = gen_ctrl.Grammar(gen_ctrl.LOOP_ATOMS, gen_ctrl.LOOP_COMPOUNDS, gen_ctrl.LOOP_CONDS)
    seen = set()
    for n, b in lg.programs(4 if tier == "quick" else 5):
        if n <= full_n:
            continue
        ok = not gen_ctrl.has_unreachable(b)
        items.append((n, gen_ctrl.make_program(b, "implicit"), "ctrl-loop", ok, 2, {}))
        if gen_ctrl.has_repeated_stmt(b):
            # the same Expr object used at every occurrence of a repeated statement
            items.append((n, dict(gen_ctrl.make_program(b, "implicit"), share=True), "ctrl-loop-shared", ok, 2, {}))
    items.extend(degenerate_programs())
    items.extend(invalid_programs())
    for size, prog, _inputs, lab in gen_ctrl.return_chains(4 if tier == "thorough" else 3):
        items.append((size, prog, "return-chain", True, 2 if "/main" in lab else 4, {}))
    longs = long_programs(tier)
    rep.bounds["recipes"] = len(items) + len(longs)
    rep.bounds["max_nodes"] = {"full": full_n, "bare": bare_n, "loop": 4 if tier == "quick" else 5}
    # default recursion limit on purpose (see DESIGN C20)
    for sh in common.pmap_shards(_worker, items, order_seed=rep.seed, recursion_limit=sys.getrecursionlimit()):
        rep.merge(sh)
    # long programs: one per shard (they are slow), on a reduced configuration set
    _CFGS = [rb.Cfg(6, "A"), rb.Cfg(10, "A"), rb.Cfg(10, "A", scratch_slots=True, frame_pointers=False)]
    for sh in common.pmap_shards(_worker, longs, shard_size=1, order_seed=rep.seed,
                                 recursion_limit=sys.getrecursionlimit()):
        rep.merge(sh)
    # variables written on some paths and read later, with arms that leave the routine: whenever every path to a
    # read passes a write (C17's reachability oracle), the program is valid and must be accepted
    from ..recipe import gen_init
    ig = gen_init.Grammar(["Sa", "La", "ret", "Sb", "Lb"], ["cin"])
    inits = []
    for k, b in ig.programs(4 if tier == "quick" else 5):
        # (programs with dead code are left out: a read sitting behind an exit may be refused)
        if gen_init.uses_var(b) and "'ret'" in str(b) and not gen_init.uninit_vars(b)[0] and not gen_init.has_dead_code(b):
            for placement in ("main", "sub"):
                inits.append((k, gen_init.make_program(b, placement), "init-exit", True, 4 if placement == "sub" else 2, {}))
    rep.bounds["initialised_with_exits"] = len(inits)
    _CFGS = [rb.Cfg(2, "A"), rb.Cfg(6, "A"), rb.Cfg(8, "A"), rb.Cfg(10, "A")]
    for sh in common.pmap_shards(_worker, inits, order_seed=rep.seed, recursion_limit=sys.getrecursionlimit()):
        rep.merge(sh)
    # call graphs: every graph over k routines x definition orders (which routine is compiled from where)
    from ..recipe import gen_sub
    graphs = [(3, gen_sub.call_graph(*a), "call-graph", True, 4, {}) for k in (2, 3) for a in gen_sub.call_graphs(k)]
    if tier == "thorough":
        graphs += [(4, gen_sub.call_graph(*a), "call-graph", True, 4, {}) for a in gen_sub.call_graphs(4, "two")]
    rep.bounds["call_graphs"] = len(graphs)
    _CFGS = [rb.Cfg(4, "A"), rb.Cfg(6, "A"), rb.Cfg(8, "A"), rb.Cfg(10, "A", scratch_slots=True, frame_pointers=False)]
    for sh in common.pmap_shards(_worker, graphs, order_seed=rep.seed, recursion_limit=sys.getrecursionlimit()):
        rep.merge(sh)
    # a valid program must also be accepted when the OptimizeOptions object it is compiled with was used before
    # (other program, other target version)
    from . import c03
    c03.shared_options_driver(rep, mode="accept")
    rep.counters["distinct_nontrivial"] = rep.counters.get("states", 0)
    rep.assumptions = ["validity of a recipe is decided syntactically (no unreachable statement, loops closed, typed by construction)"]
    if not rep.outcomes.get("TEAL"):
        raise common.MachineryError("vacuous: nothing compiled")
    return rep.finish()


def replay(case):
    if case.get("driver") == "shared-options":
        from . import c03
        return c03.replay_shared(case, "accept", PID)
    cfg = rb.Cfg.from_json(case["cfg"])
    recipe = case["recipe"]
    if isinstance(recipe.get("main"), dict) and "__gen__" in recipe["main"]:
        g = recipe["main"]
        same = [p for n, p, d, _a, _m, _e in long_programs("thorough") + long_programs("quick") if d == g["__gen__"] and n == g["n"]]
        recipe = same[0]
    cls, exc = classify(recipe, cfg)
    print("outcome:", cls, str(exc)[:300] if exc else "")
    if case.get("kind") == "crash":
        return cls.startswith("CRASH:")
    return cls != "TEAL"
