"""C16 - WideRatio is exact or fails, never wraps.

Every factor-count pair (n, d) in 1..6 x 1..6 except (1,1); factors are read from
application arguments, so one compile per shape and version serves all values.  Values:
ALL assignments of a boundary alphabet (sized per shape) plus constructed near-overflow
factor lists.  Oracle: Python integers.
"""
import itertools

import pyteal as pt

from .. import common
from ..avm import asm, interp
from ..recipe import build as rb

PID = "C16"
M64 = (1 << 64) - 1
W128 = 1 << 128

ALPHABETS = {
    2: [0, 1, 2, 3, (1 << 32) - 1, 1 << 32, (1 << 32) + 1, 1 << 63, M64 - 1, M64],
    3: [0, 1, 2, 3, (1 << 32) - 1, 1 << 32, (1 << 32) + 1, 1 << 63, M64 - 1, M64],
    4: [0, 1, 2, 3, (1 << 32) - 1, 1 << 32, (1 << 32) + 1, 1 << 63, M64 - 1, M64],
    5: [0, 1, 2, (1 << 32) - 1, 1 << 32, 1 << 63, M64],
    6: [0, 1, 3, 1 << 32, (1 << 32) + 1, M64],
    7: [0, 1, 2, 1 << 32, M64],
    8: [0, 1, 1 << 32, M64],
    9: [0, 1, 1 << 32, M64],
    10: [0, 1, 1 << 32, M64],
    11: [1, (1 << 32) + 1, M64],
    12: [1, (1 << 32) + 1, M64],
}
QUICK_CAP = {2: 10, 3: 10, 4: 8, 5: 6, 6: 5, 7: 4, 8: 3, 9: 3, 10: 2, 11: 2, 12: 2}


def reference(nums, dens):
    p = 1
    for x in nums:
        p *= x
        if p >= W128:
            return None
    q = 1
    for x in dens:
        q *= x
        if q >= W128:
            return None
    if q == 0:
        return None
    r = p // q
    if r > M64:
        return None
    return r


def expected(nums, dens, style=None):
    """the reference result; styles 6 / 7: the k-th numerator / denominator is k * (first one), see program()"""
    n, d = len(nums), len(dens)
    if style == 6:
        return reference(tuple(nums[0] * (i + 1) for i in range(n)), dens) if nums[0] * n <= M64 else None
    if style == 7:
        return reference(nums, tuple(dens[0] * (i + 1) for i in range(d))) if dens[0] * d <= M64 else None
    if style in (8, 9):
        # a ratio used as a factor of another ratio is a floored, range-checked uint64 value of its own
        inner = reference(nums[:2], dens[:1])
        if inner is None:
            return None
        if style == 8:
            return reference((inner,) + tuple(nums[2:]) + (3,), dens)
        return reference(tuple(nums[2:]) + (3,), (inner,) + tuple(dens[1:]))
    return reference(nums, dens)


def program(n, d, lits=None):
    """factors come from application arguments, except the positions in `lits` (position in the combined
    numerator+denominator list -> Python int), which are literal Int constants"""
    lits = dict(lits or {})
    grown = lits.pop(-1, None)
    fac = [pt.Int(lits[i]) if i in lits else pt.Btoi(pt.Txn.application_args[i]) for i in range(n + d)]
    nums, dens = fac[:n], fac[n:]
    if grown == 1:
        # built with as few numerator factors as the constructor accepts, the others appended afterwards
        k = 1 if d >= 2 else 2
        ratio = pt.WideRatio(nums[:k], dens)
        ratio.numeratorFactors.extend(nums[k:])
    elif grown == 2:
        k = 1 if n >= 2 else 2
        ratio = pt.WideRatio(nums, dens[:k])
        ratio.denominatorFactors.extend(dens[k:])
    elif grown == 3:
        # the documented parameter names used as keywords
        ratio = pt.WideRatio(numeratorFactors=nums, denominatorFactors=dens)
    elif grown == 4:
        ratio = pt.WideRatio(denominatorFactors=dens, numeratorFactors=nums)
    elif grown == 5:
        ratio = pt.WideRatio(nums, denominatorFactors=dens)
    elif grown in (8, 9):
        inner = pt.WideRatio([nums[0], nums[1]], [dens[0]])
        if grown == 8:
            ratio = pt.WideRatio([inner] + nums[2:] + [pt.Int(3)], dens)
        else:
            ratio = pt.WideRatio(nums[2:] + [pt.Int(3)], [inner] + dens[1:])
    elif grown in (6, 7):
        # ONE expression object fills every numerator (6) / denominator (7) position; it counts its evaluations, the
        # k-th evaluation yields k * (first argument of that list): the product over the list is the same whatever
        # order the positions are evaluated in
        ctr = pt.ScratchVar(pt.TealType.uint64)
        first = nums[0] if grown == 6 else dens[0]
        tick = pt.Seq(ctr.store(ctr.load() + pt.Int(1)), ctr.load() * first)
        ratio = pt.WideRatio([tick] * n, dens) if grown == 6 else pt.WideRatio(nums, [tick] * d)
        return pt.Seq(ctr.store(pt.Int(0)), pt.App.globalPut(pt.Bytes("r"), ratio), pt.Int(1))
    else:
        ratio = pt.WideRatio(nums, dens)
    return pt.Seq(pt.App.globalPut(pt.Bytes("r"), ratio), pt.Int(1))


def near_overflow(n, d):
    """factor lists whose running products sit on the 2^128 / 2^64 boundaries"""
    out = []

    def split(target, k):
        # k factors (<= 2^64-1) whose product is as close as possible to target from below
        fs = []
        rem = target
        for i in range(k - 1):
            f = min(M64, max(1, rem >> (64 * (k - 2 - i)) if k - 2 - i > 0 else rem))
            f = min(f, M64)
            f = max(1, min(M64, int(round(rem ** (1.0 / (k - i)))) if rem > 0 else 1))
            fs.append(f)
            rem = rem // f if f else 0
        fs.append(max(0, min(M64, rem)))
        return fs
    targets = [W128 - 1, W128, W128 + (1 << 64), (1 << 127), (1 << 64) - 1, 1 << 64, (1 << 64) + 1]
    for tn in targets:
        for td in (1, 2, (1 << 64) - 1, 1 << 64, W128 - 1):
            nums = split(tn, n) if n > 1 else [min(M64, tn)]
            dens = split(td, d) if d > 1 else [min(M64, td)]
            out.append((tuple(nums), tuple(dens)))
    # exact boundaries with powers of two
    if n >= 2:
        out.append(((1 << 63, 2) + (1,) * (n - 2), (1,) * d))            # 2^64: quotient overflow by 1
        out.append(((M64, 1) + (1,) * (n - 2), (1,) * d))                 # 2^64-1: fits
        out.append(((1 << 32, 1 << 32) + (1,) * (n - 2), (1,) + (1,) * (d - 1)))
        out.append(((M64, M64) + (1,) * (n - 2), (M64,) + (1,) * (d - 1)))  # (2^64-1)^2 / (2^64-1)
    if n >= 3:
        out.append(((M64, M64, 2) + (1,) * (n - 3), (M64,) + (2,) * min(1, d - 1) + (1,) * max(0, d - 2)))  # running product overflows 128 bits
        out.append(((1 << 63, 1 << 63, 4) + (1,) * (n - 3), (1 << 63,) + (1,) * (d - 1)))  # exactly 2^128
        out.append(((1 << 63, 1 << 63, 3) + (1,) * (n - 3), (1 << 63,) + (1,) * (d - 1)))  # just below 2^128
    if d >= 3:
        out.append(((1,) * n, (M64, M64, 2) + (1,) * (d - 3)))
        out.append(((M64,) + (1,) * (n - 1), (1 << 63, 1 << 63, 4) + (1,) * (d - 3)))
    return [(a, b) for a, b in out if len(a) == n and len(b) == d]


_TIER = "quick"


def _worker(items, base):
    out = {"counters": {}, "outcomes": {}, "violations": [], "samples": []}
    cnt, oc = out["counters"], out["outcomes"]
    for n, d, versions, lits in items:
        lits = {int(k): v for k, v in (lits or {}).items()}
        progs = []
        for v in versions:
            cfg = rb.Cfg(v, "A")
            try:
                text = rb.compile_cfg(program(n, d, lits), cfg)
            except Exception as e:
                cnt["compile_fail"] = cnt.get("compile_fail", 0) + 1
                continue
            p = asm.assemble(text)
            if all(p.stream() != q.stream() for _c, _t, q in progs):
                progs.append((cfg, text, p))
        alpha = ALPHABETS[n + d]
        if _TIER == "quick":
            alpha = alpha[:QUICK_CAP[n + d]] if len(alpha) > QUICK_CAP[n + d] else alpha
            # keep the extremes
            if M64 not in alpha:
                alpha = alpha[:-1] + [M64]
        if lits:
            small = [0, 1, 3, 1 << 32, M64]
            pools = [[lits[i]] if i in lits else small for i in range(n + d)]
            cases = [(t[:n], t[n:]) for t in itertools.product(*pools)]
        else:
            cases = [(t[:n], t[n:]) for t in itertools.product(alpha, repeat=n + d)]
            cases += near_overflow(n, d)
        cnt["states"] = cnt.get("states", 0) + 1
        cnt["transitions"] = cnt.get("transitions", 0) + n + d
        for nums, dens in cases:
            exp = expected(nums, dens, lits.get(-1))
            oc["exact" if exp is not None else "must_fail"] = oc.get("exact" if exp is not None else "must_fail", 0) + 1
            args = [x.to_bytes(8, "big") for x in nums + dens]
            for cfg, text, p in progs:
                ctx = interp.Ctx(mode="A", group=[interp.default_txn(ApplicationArgs=args)])
                res = interp.run(p, ctx, fuel=5000)
                cnt["traces_validated"] = cnt.get("traces_validated", 0) + 1
                got = None
                if res.verdict == "APPROVE":
                    got = dict((e[1], e[2]) for e in res.effects if e[0] == "gput").get(b"r")
                ok = (exp is None and res.verdict == "FAIL") or (exp is not None and res.verdict == "APPROVE" and got == exp)
                if not ok:
                    out["violations"].append({
                        "driver": "wideratio", "size": n + d,
                        "title": "WideRatio(%r, %r): expected %s, program gave %s %r (v%d)" % (
                            list(nums), list(dens), "FAIL" if exp is None else exp, res.verdict, got, cfg.version),
                        "nums": list(nums), "dens": list(dens), "lits": {str(k): v for k, v in lits.items()}, "cfg": cfg.to_json(), "teal": text,
                        "features": {"shape": [n, d], "expected_fail": exp is None},
                    })
        if len(out["samples"]) < 1:
            out["samples"].append({"shape": [n, d], "example": [list(cases[-1][0]), list(cases[-1][1])],
                                   "expected": reference(*cases[-1])})
    return out


def run(tier):
    global _TIER
    _TIER = tier
    rep = common.Report(PID, tier)
    rep.rule = ("every factor-count shape (n,d) in 1..6 x 1..6 minus (1,1) x ALL value assignments over the per-shape "
                "boundary alphabet + constructed near-overflow lists, on every distinct instruction stream among versions")
    versions = (5, 6, 8, 10) if tier == "quick" else (5, 6, 7, 8, 9, 10)
    items = [(n, d, versions, None) for n in range(1, 7) for d in range(1, 7) if (n, d) != (1, 1)]
    if tier == "quick":
        items = [it for it in items if it[0] + it[1] <= 9]
        rep.cap("quick tier: shapes with n+d <= 9 and reduced alphabets; thorough covers all 35 shapes")
    # literal (compile-time constant) factors at every position: a constant folded or skipped wrongly
    lit_max = 5 if tier == "quick" else 7
    nlit = 0
    for n in range(1, 7):
        for d in range(1, 7):
            if (n, d) == (1, 1) or n + d > lit_max:
                continue
            for pos in range(n + d):
                for lv in (0, 1, 2, M64):
                    items.append((n, d, versions[:2], {pos: lv}))
                    nlit += 1
            if n + d <= 4:
                for p1, p2 in itertools.combinations(range(n + d), 2):
                    for l1, l2 in ((0, 1), (1, 0), (1, 1), (0, 0)):
                        items.append((n, d, versions[:2], {p1: l1, p2: l2}))
                        nlit += 1
    # the same shapes built INCREMENTALLY: constructed from the first numerator and first denominator, the other
    # factors appended to the object's public factor lists afterwards (key -1 of the literal map marks the mode)
    for n in range(1, 6):
        for d in range(1, 6):
            if (n, d) != (1, 1) and n + d <= (6 if tier == "quick" else 8):
                items.append((n, d, versions[1:3], {-1: 1}))
                items.append((n, d, versions[1:3], {-1: 2}))
                nlit += 2
                if n >= 2:
                    items.append((n, d, versions[1:3], {-1: 6}))
                    items.append((n, d, versions[1:3], {-1: 8}))
                    items.append((n, d, versions[1:3], {-1: 9}))
                    nlit += 3
                if d >= 2:
                    items.append((n, d, versions[1:3], {-1: 7}))
                    nlit += 1
                if n + d <= 4:
                    for style in (3, 4, 5):     # keyword / reordered keyword / mixed call styles
                        items.append((n, d, versions[1:2], {-1: style}))
                        nlit += 1
    rep.bounds["literal_factor_programs"] = nlit
    rep.bounds["shapes"] = len(items) - nlit
    rep.bounds["versions"] = list(versions)
    for sh in common.pmap_shards(_worker, items, shard_size=1, order_seed=rep.seed):
        rep.merge(sh)
    rep.counters["distinct_nontrivial"] = rep.counters.get("traces_validated", 0)
    rep.assumptions = ["reference AVM wide arithmetic (mulw/addw/divmodw) as in the self-test vectors"]
    if not rep.outcomes.get("exact") or not rep.outcomes.get("must_fail"):
        raise common.MachineryError("vacuous")
    return rep.finish()


def replay(case):
    cfg = rb.Cfg.from_json(case["cfg"])
    n, d = len(case["nums"]), len(case["dens"])
    text = rb.compile_cfg(program(n, d, {int(k): v for k, v in case.get("lits", {}).items()}), cfg)
    args = [x.to_bytes(8, "big") for x in case["nums"] + case["dens"]]
    res = interp.run(asm.assemble(text), interp.Ctx(mode="A", group=[interp.default_txn(ApplicationArgs=args)]), fuel=5000)
    exp = expected(tuple(case["nums"]), tuple(case["dens"]), case.get("lits", {}).get("-1"))
    got = dict((e[1], e[2]) for e in res.effects if e[0] == "gput").get(b"r") if res.verdict == "APPROVE" else None
    print("expected", exp, "got", res.verdict, got)
    return not ((exp is None and res.verdict == "FAIL") or (exp is not None and res.verdict == "APPROVE" and got == exp))
