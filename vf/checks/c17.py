"""C17 - reading a routine-local variable before writing it is rejected.

All placements of stores/loads of two routine-local variables over all control-flow
shapes up to the node bound (main routine and inside a subroutine; automatic and
requested slot ids).  Oracle: explicit-state search over the recipe's syntactic CFG with
states (position, set of stored variables).  If some path reaches a load of v without a
store of v, compilation must fail with PyTeal's error whose cause names a load of such a
variable.  (The converse - acceptance of initialised programs - belongs to C20.)
"""
import pyteal as pt

from .. import common, drive
from ..recipe import build as rb
from ..recipe import gen_init

PID = "C17"
_CFGS = None
# ScratchVar with automatic / requested slot, abi.Uint64 through set()/get(), bare ScratchSlot through
# ScratchStore/ScratchLoad
_VARKINDS = ("auto", "reserved", "abi", "raw", "bytes")


def compile_and_classify(prog, cfg):
    """-> (status, exc, slot_owner) where slot_owner maps ScratchSlot -> variable name"""
    b = rb.Builder(prog, cfg, drive.tickmode_for(cfg))
    try:
        expr = b.main()
        owners = {}
        for name, v in b.vars.items():
            owners[v.slot] = name
        text = rb.compile_cfg(expr, cfg)
        return "ok", text, owners, b
    except drive.PT_ERRORS as e:
        owners = {}
        for name, v in b.vars.items():
            owners[v.slot] = name
        for (sub, ln), lst in b.local_vars.items():
            for v in lst:
                owners[v.slot] = ln
        return "pterr", e, owners, b
    except Exception as e:
        return "crash", e, {}, b


def teal_read_before_write(text):
    """explicit-state search over the EMITTED program: states (pc, set of slots stored so far in this routine
    activation), every routine explored from its entry (callsub steps over the call).  Only slots that a single
    routine uses are considered (the property's scope).  -> (message or None, states visited)"""
    from ..avm import asm
    p = asm.assemble(text)
    ins = p.instrs
    entries = {0: "main"}
    for i_ in ins:
        if i_.op == "callsub" and i_.args and i_.args[0] in p.labels:
            entries[p.labels[i_.args[0]]] = i_.args[0]
    # which routine does each pc belong to (first-reached wins; routines do not share code in PyTeal output)
    def succ(pc):
        i_ = ins[pc]
        if i_.op in ("return", "err", "retsub"):
            return []
        if i_.op == "b":
            return [p.labels[i_.args[0]]]
        if i_.op in ("bz", "bnz"):
            return [pc + 1, p.labels[i_.args[0]]]
        if i_.op in ("switch", "match"):
            return [pc + 1] + [p.labels[x] for x in i_.args[0]] if i_.args and isinstance(i_.args[0], list) else [pc + 1]
        return [pc + 1]
    users = {}
    reach = {}
    for e in entries:
        seen, todo = set(), [e]
        while todo:
            pc = todo.pop()
            if pc in seen or pc >= len(ins):
                continue
            seen.add(pc)
            if ins[pc].op in ("load", "store") and ins[pc].args:
                users.setdefault(ins[pc].args[0], set()).add(e)
            todo += succ(pc)
        reach[e] = seen
    local = set(s for s, rs in users.items() if len(rs) == 1)
    visited = 0
    for e in entries:
        seen, todo = set(), [(e, frozenset())]
        while todo:
            st = todo.pop()
            if st in seen or st[0] >= len(ins):
                continue
            seen.add(st)
            visited += 1
            pc, stored = st
            i_ = ins[pc]
            if i_.op == "load" and i_.args and i_.args[0] in local and i_.args[0] not in stored:
                return ("emitted program reaches `load %s` (line %d of routine %s) on a path without a store to that slot"
                        % (i_.args[0], i_.line, entries[e])), visited
            if i_.op == "store" and i_.args and i_.args[0] in local:
                stored = stored | {i_.args[0]}
            for n in succ(pc):
                todo.append((n, stored))
    return None, visited


def check(prog, body, cfg, out, size, placement, varkind):
    cnt, oc = out["counters"], out["outcomes"]
    bad, nstates = gen_init.uninit_vars(body)
    cnt["oracle_states"] = cnt.get("oracle_states", 0) + nstates
    st, r, owners, b = compile_and_classify(prog, cfg)
    cnt["traces_validated"] = cnt.get("traces_validated", 0) + 1
    if any(v.slot is None for lst in b.local_vars.values() for v in lst):
        # an ABI value created inside a version 8+ subroutine lives in the routine's frame (zero-initialised by
        # the prologue), not in a scratch slot: the property does not speak about it (outcome recorded only)
        oc["frame-backed:" + st] = oc.get("frame-backed:" + st, 0) + 1
        return
    key = ("uninit" if bad else "init") + ":" + st
    oc[key] = oc.get(key, 0) + 1
    if not bad:
        if st == "ok":
            # "hence in any program that compiles, such a variable is never read before its first write":
            # search the emitted program itself
            why, nst = teal_read_before_write(r)
            cnt["teal_states"] = cnt.get("teal_states", 0) + nst
            if why:
                out["violations"].append({
                    "driver": placement + "/" + varkind, "size": size, "title": "%s: %s (%r)" % (placement, why, cfg),
                    "recipe": prog, "body": body, "cfg": cfg.to_json(), "placement": placement, "varkind": varkind,
                    "teal": r, "features": {"why": "emitted read before write", "status": st}})
        return
    why = None
    if st == "ok":
        why = "a path reaches a load of %s before any store, yet the program compiled" % sorted(bad)
    elif st == "crash":
        why = "compile crashed with %r" % (r,)
    else:
        cause = r.__cause__
        named = None
        if isinstance(cause, pt.TealCompileError) and isinstance(cause.sourceExpr, pt.ScratchLoad):
            named = owners.get(cause.sourceExpr.slot)
        if not isinstance(r, (pt.TealInternalError, pt.TealCompileError)) or "slot" not in (str(r) + str(cause)).lower():
            why = "rejected, but not as an uninitialised slot read: %s: %s" % (type(r).__name__, str(r)[:120])
        elif named is None:
            why = "the error does not identify a load expression of a program variable"
        elif named not in bad and named not in gen_init.uninit_vars(body, lenient=True)[0]:
            # (a load sitting in dead code after a Return/Break/Continue may legitimately be the one named first)
            why = "the error names a load of %r, but only %s can be read before being written" % (named, sorted(bad))
    if why:
        out["violations"].append({
            "driver": placement + "/" + varkind, "size": size, "title": "%s: %s (%r)" % (placement, why, cfg),
            "recipe": prog, "body": body, "cfg": cfg.to_json(), "placement": placement, "varkind": varkind,
            "teal": r if st == "ok" else None, "features": {"why": why.split(",")[0][:50], "status": st},
        })


def _worker(items, base):
    out = {"counters": {}, "outcomes": {}, "violations": [], "samples": []}
    for size, body in items:
        for placement in ("main", "sub"):
            for varkind in _VARKINDS:
                if varkind in ("abi", "raw") and "'Ia'" in str(body):
                    continue    # set_index takes a ScratchVar
                if varkind == "bytes" and "'cLa'" in str(body):
                    continue    # the variable as a condition needs an integer
                prog = gen_init.make_program(body, placement, varkind)
                for cfg in _CFGS:
                    check(prog, body, cfg, out, size, placement, varkind)
        out["counters"]["states"] = out["counters"].get("states", 0) + 1
        out["counters"]["transitions"] = out["counters"].get("transitions", 0) + size
    if items and base % 499 == 0:
        out["samples"].append({"body": items[0][1], "uninit": sorted(gen_init.uninit_vars(items[0][1])[0])})
    return out


def shared_subroutine_driver(rep):
    """ONE subroutine object used by two programs (an approval and a clear-state program sharing a helper): in
    program A the variable it reads is written by the main routine first (it is then shared between two
    routines: accepted); in program B nothing writes it (it is used by the helper alone and read before any
    write: must be rejected) - in both compilation orders, and after A was compiled several times."""
    for version in (6, 8, 10):
        for order in ("B", "AB", "AAB", "BAB"):
            x = pt.ScratchVar(pt.TealType.uint64)

            @pt.Subroutine(pt.TealType.uint64)
            def helper():
                return x.load() + pt.Int(1)
            prog_a = lambda: pt.Seq(x.store(pt.Int(5)), pt.Pop(helper()), pt.Int(1))
            prog_b = lambda: pt.Seq(pt.Pop(helper()), pt.Int(1))
            last = None
            for step in order:
                try:
                    pt.compileTeal(prog_a() if step == "A" else prog_b(), pt.Mode.Application, version=version)
                    last = "ok"
                except drive.PT_ERRORS as e:
                    last = "pterr"
                except Exception as e:
                    last = "crash: %r" % (e,)
                if step == "A" and last != "ok":
                    rep.violations.append({"driver": "shared-sub", "size": 2, "title": "v%d order %s: program A (variable written by main) was %s" % (version, order, last),
                                           "order": order, "version": version, "features": {"why": "shared-sub A rejected", "status": last}})
            rep.add("traces_validated")
            rep.outcomes["shared-sub:" + str(last)] = rep.outcomes.get("shared-sub:" + str(last), 0) + 1
            if last != "pterr":
                rep.violations.append({
                    "driver": "shared-sub", "size": 2,
                    "title": "v%d order %s: program B reads a helper-only variable that nothing writes, yet compiling it gave %s" % (version, order, last),
                    "order": order, "version": version, "features": {"why": "shared-sub B accepted", "status": str(last)}})


def probed_subroutine_driver(rep):
    """histories in which a subroutine is QUERIED on the side (type_of / has_return evaluate its body and rewind the
    slot-id counter) before the main routine's variables are created, while a variable made inside that body
    survives (a memoised temporary): the later variables then carry slot ids that object already has.  They are
    different variables all the same: the one the main routine loads before any store must be reported, in every
    position among its siblings; with every variable stored first the program must compile."""
    for version in (6, 8, 10):
        for probe in ("none", "type_of", "has_return", "both", "twice"):
            for m in (1, 2, 3, 4):
                for bad in list(range(m)) + [None]:
                    temps = {}

                    def temp():
                        if "t" not in temps:
                            temps["t"] = pt.ScratchVar(pt.TealType.uint64)
                        return temps["t"]

                    @pt.Subroutine(pt.TealType.uint64)
                    def bump(x):
                        t = temp()
                        return pt.Seq(t.store(x + pt.Int(1)), t.load())
                    if probe in ("type_of", "both", "twice"):
                        bump.type_of()
                    if probe in ("has_return", "both"):
                        bump.has_return()
                    if probe == "twice":
                        bump.type_of()
                    use = pt.Pop(bump(pt.Int(1)))
                    vs = [pt.ScratchVar(pt.TealType.uint64) for _ in range(m)]
                    body = []
                    for j, v in enumerate(vs):
                        if j == bad:
                            body += [pt.Pop(v.load()), use, v.store(pt.Int(2))]
                        else:
                            body += [v.store(pt.Int(j)), pt.Pop(v.load())]
                    if bad is None:
                        body.append(use)
                    try:
                        pt.compileTeal(pt.Seq(*body, pt.Int(1)), pt.Mode.Application, version=version)
                        st = "ok"
                    except drive.PT_ERRORS:
                        st = "pterr"
                    except Exception as e:
                        st = "crash: %r" % (e,)
                    rep.add("traces_validated")
                    rep.outcomes["probed-sub:" + st[:5]] = rep.outcomes.get("probed-sub:" + st[:5], 0) + 1
                    want = "ok" if bad is None else "pterr"
                    if st != want:
                        rep.violations.append({
                            "driver": "probed-sub", "size": m,
                            "title": "v%d, subroutine queried (%s) before %d variables were made, variable %s loaded before "
                                     "its first store: compiling gave %s, expected %s" % (version, probe, m, bad, st, want),
                            "probed": [version, probe, m, bad],
                            "features": {"why": "probed-sub " + ("accepted" if st == "ok" else st[:12]), "status": st[:20]}})


def run(tier):
    global _CFGS
    rep = common.Report(PID, tier)
    rep.rule = ("every statement recipe with <= N nodes over {store a, load a, store b, load b, tick, Break, Continue, "
                "Return, If, If/Else, Cond, While, For} x conditions {1, input, a.load()} that contains a load; placed "
                "in main and in a subroutine, automatic and requested slots; oracle = explicit-state reachability over "
                "(position, stored-set)")
    _CFGS = [rb.Cfg(6, "A"), rb.Cfg(6, "A", scratch_slots=True), rb.Cfg(8, "A"), rb.Cfg(10, "A"),
             rb.Cfg(10, "A", frame_pointers=False)]
    if tier == "thorough":
        _CFGS += [rb.Cfg(4, "A"), rb.Cfg(5, "A"), rb.Cfg(7, "A"), rb.Cfg(9, "A"), rb.Cfg(8, "A", scratch_slots=True)]
    n = 3 if tier == "quick" else 4
    g = gen_init.Grammar()
    items = [(k, b) for k, b in g.programs(n) if gen_init.uses_var(b)]
    # one node deeper over the store/load core of the alphabet (both variables stored on different arms of a
    # conditional and loaded after the join need 4 nodes)
    fg = gen_init.Grammar(["Sa", "La", "Sb", "Lb"], ["cin"])
    seen = set(b for _k, b in items)
    for k, b in fg.programs(n + 1):
        if k == n + 1 and gen_init.uses_var(b) and b not in seen:
            items.append((k, b))
    # the same core programs reached from a NON-initial control-flow state: after a loop whose body ends in a
    # conditional with two coinciding targets (If(c).Then(Continue()) / an empty If as the last statement)
    prefixes = [(("while", "cin", (("if", "cin", (("cont",),)),)),), (("while", "cin", (("if", "cin", ()),)),)]
    core = [(k, b) for k, b in fg.programs(n + 1) if gen_init.uses_var(b)]
    for pre in prefixes:
        for k, b in core:
            items.append((k + 3, pre + b))
    # a third kind of op that names a slot: its INDEX is taken (DynamicScratchVar.set_index) - not a write
    ig = gen_init.Grammar(["Sa", "La", "Ia"], ["cin"])
    for k, b in ig.programs(n + 1):
        if "'Ia'" in str(b) and gen_init.uses_var(b) and b not in seen:
            items.append((k, b))
    rep.bounds["loop_prefixes"] = len(prefixes)
    rep.bounds["core_alphabet_max_nodes"] = n + 1
    rep.bounds["max_nodes"] = n
    rep.bounds["recipes"] = len(items)
    rep.bounds["configs"] = [repr(c) for c in _CFGS]
    for sh in common.pmap_shards(_worker, items, order_seed=rep.seed):
        rep.merge(sh)
    shared_subroutine_driver(rep)
    probed_subroutine_driver(rep)
    rep.counters["distinct_nontrivial"] = rep.counters.get("states", 0)
    rep.assumptions = ["paths are syntactic: both outcomes of every condition, zero or more loop iterations",
                       "code after Return/Break/Continue in the same sequence is unreachable"]
    if not rep.outcomes.get("uninit:pterr") or not rep.outcomes.get("init:ok"):
        raise common.MachineryError("vacuous: need rejected-uninitialised and accepted-initialised programs")
    return rep.finish()


def replay(case):
    if case.get("driver") == "shared-sub":
        rep = common.Report(PID, "quick")
        shared_subroutine_driver(rep)
        hits = [v for v in rep.violations if v["order"] == case["order"] and v["version"] == case["version"]]
        for v in hits:
            print("still violates:", v["title"])
        return bool(hits)
    if case.get("driver") == "probed-sub":
        rep = common.Report(PID, "quick")
        probed_subroutine_driver(rep)
        hits = [v for v in rep.violations if v["probed"] == case["probed"]]
        for v in hits:
            print("still violates:", v["title"])
        return bool(hits)
    out = {"counters": {}, "outcomes": {}, "violations": [], "samples": []}
    body = _tuplify(case["body"])
    check(case["recipe"], body, rb.Cfg.from_json(case["cfg"]), out, 0, case["placement"], case["varkind"])
    for v in out["violations"]:
        print("still violates:", v["title"])
    return bool(out["violations"])


def _tuplify(x):
    if isinstance(x, list):
        return tuple(_tuplify(y) for y in x)
    return x
