"""C09 - routed methods receive ARC-4 arguments and log ARC-4 results.

Method signatures are enumerated (0..17 plain parameters by position patterns; transaction
and reference parameters at every position of short lists; void and non-void results).
Each method body logs every received argument re-encoded.  The calling group is built by
algosdk's AtomicTransactionComposer (an independent ARC-4 client encoder, used offline) and
mapped into the reference AVM's group context.  Oracle: each log equals the reference
encoding of the value passed; exactly one return log 0x151f7c75 || encode(result); wrong
transaction type => failure; the contract description's selectors are the ones found in
the approval TEAL.
"""
import base64
import itertools

import pyteal as pt
from pyteal import abi
from algosdk import abi as sdkabi
from algosdk import encoding as sdkenc
from algosdk import transaction as sdktxn
from algosdk.atomic_transaction_composer import (AtomicTransactionComposer, TransactionSigner, TransactionWithSigner)

from .. import common, drive, abi_gen
from ..avm import asm, interp

PID = "C09"
_VERSIONS = (6, 8, 10)
PLAIN = ["uint64", "bool", "string", ["sarr", "uint8", 2], ["tuple", "uint64", "string"]]
TXN_KINDS = {"txn": abi.Transaction, "pay": abi.PaymentTransaction, "axfer": abi.AssetTransferTransaction,
             "appl": abi.ApplicationCallTransaction}
REF_KINDS = {"account": abi.Account, "asset": abi.Asset, "application": abi.Application}
SENDER = sdkenc.encode_address(b"\x01" * 32)
OTHER = sdkenc.encode_address(b"\x22" * 32)
OTHER2 = sdkenc.encode_address(b"\x33" * 32)
RETURN_PREFIX = bytes.fromhex("151f7c75")


class NoSigner(TransactionSigner):
    def sign_transactions(self, txn_group, indexes):
        return []


def SP():
    return sdktxn.SuggestedParams(fee=1000, first=1, last=1000, gh=base64.b64encode(bytes(32)).decode(), flat_fee=True)


def kind_sig(k):
    return k if isinstance(k, str) and (k in TXN_KINDS or k in REF_KINDS) else abi_gen.sig(k)


def is_txn(k):
    return isinstance(k, str) and k in TXN_KINDS


def is_ref(k):
    return isinstance(k, str) and k in REF_KINDS


def method_sig(name, params, ret):
    return "%s(%s)%s" % (name, ",".join(kind_sig(p) for p in params), "void" if ret is None else abi_gen.sig(ret))


RET_VALUES = {"uint64": 12345, "string": b"ret", repr(["tuple", "uint64", "string"]): [7, b"xy"], "bool": True}


def build_method(name, params, ret, argnames=None, raw=False):
    names = list(argnames) if argnames else ["a%d" % i for i in range(len(params))]
    ann = {}
    for nm, k in zip(names, params):
        if is_txn(k):
            ann[nm] = TXN_KINDS[k]
        elif is_ref(k):
            ann[nm] = REF_KINDS[k]
        else:
            ann[nm] = abi_gen.spec(k).annotation_type()
    ann["return"] = pt.Expr
    if ret is not None:
        ann["output"] = abi_gen.spec(ret).annotation_type()

    def impl(*args, output=None):
        steps = []
        for i, (a, k) in enumerate(zip(args, params)):
            tag = pt.Bytes(bytes([0x40 + i]))
            if is_txn(k):
                steps.append(pt.Log(pt.Concat(tag, pt.Itob(a.get().type_enum()), pt.Itob(a.index()))))
            elif k == "account":
                steps.append(pt.Log(pt.Concat(tag, a.address())))
            elif k == "asset":
                steps.append(pt.Log(pt.Concat(tag, pt.Itob(a.asset_id()))))
            elif k == "application":
                steps.append(pt.Log(pt.Concat(tag, pt.Itob(a.application_id()))))
            else:
                steps.append(pt.Log(pt.Concat(tag, a.encode())))
        if output is not None:
            rv = RET_VALUES[ret if isinstance(ret, str) else repr(ret)]
            st = []
            abi_gen.make(ret, rv, "lit", st, inst=output)
            steps += st
        return pt.Seq(*steps) if steps else pt.Seq(pt.Pop(pt.Int(1)))
    src = "def %s(%s%s):\n    return __impl(%s%s)\n" % (
        name, ", ".join(names), (", *, output" if names else "*, output") if ret is not None else "",
        ", ".join(names), (", output=output" if names else "output=output") if ret is not None else "")
    ns = {"__impl": impl}
    exec(src, ns)
    fn = ns[name]
    fn.__annotations__ = ann
    if raw:
        return fn
    return pt.ABIReturnSubroutine(fn)


PLAIN_VALUES = {
    "uint64": [0, (1 << 64) - 1, 77],
    "bool": [True, False],
    "string": [b"", b"hi", b"abcde"],
    repr(["sarr", "uint8", 2]): [[0, 255], [1, 2]],
    repr(["tuple", "uint64", "string"]): [[5, b"s"], [0, b""]],
}


def arg_value(k, i, variant):
    if is_txn(k) or is_ref(k):
        return None
    vs = PLAIN_VALUES[k if isinstance(k, str) else repr(k)]
    return vs[(i + variant) % len(vs)]


def build_group(sig, params, variant, wrong_txn_type=False):
    """-> (group as list of ctx txn dicts, index of the app call, expected per-arg logs)"""
    method = sdkabi.Method.from_signature(sig)
    atc = AtomicTransactionComposer()
    sp = SP()
    margs = []
    expect = []
    accounts_used = [OTHER, OTHER2]
    for i, k in enumerate(params):
        tag = bytes([0x40 + i])
        if is_txn(k):
            kind = k if k != "txn" else ("pay" if (i + variant) % 2 == 0 else "axfer")
            if kind == "pay":
                t = sdktxn.PaymentTxn(SENDER, sp, OTHER, 1000 + i)
            elif kind == "axfer":
                t = sdktxn.AssetTransferTxn(SENDER, sp, OTHER, 5 + i, 99)
            else:
                t = sdktxn.ApplicationCallTxn(SENDER, sp, 55, sdktxn.OnComplete.NoOpOC, app_args=[b"inner"])
            margs.append(TransactionWithSigner(t, NoSigner()))
            expect.append((tag, "txn", {"pay": 1, "axfer": 4, "appl": 6}[kind]))
        elif k == "account":
            addr = [SENDER, OTHER, OTHER2][(i + variant) % 3]
            margs.append(addr)
            expect.append((tag, "bytes", sdkenc.decode_address(addr)))
        elif k == "asset":
            aid = 1000 + ((i + variant) % 2)
            margs.append(aid)
            expect.append((tag, "bytes", aid.to_bytes(8, "big")))
        elif k == "application":
            apid = [7, 88, 89][(i + variant) % 3]
            margs.append(apid)
            expect.append((tag, "bytes", apid.to_bytes(8, "big")))
        else:
            v = arg_value(k, i, variant)
            margs.append(abi_gen.to_sdk(k, v))
            expect.append((tag, "bytes", abi_gen.encode(k, v)))
    atc.add_method_call(app_id=7, method=method, sender=SENDER, sp=sp, signer=NoSigner(), method_args=margs)
    group = []
    for idx, tws in enumerate(atc.build_group()):
        group.append(sdk_txn_to_ctx(tws.txn))
    if wrong_txn_type:
        # the client library refuses to build such a group, so the (first) typed transaction argument is
        # swapped for a transaction of another type after the group was built
        ntx = sum(1 for k in params if is_txn(k))
        tpos = 0
        for k in params:
            if is_txn(k):
                if k != "txn":
                    gidx = len(group) - 1 - ntx + tpos
                    other = {"pay": "axfer", "axfer": "pay", "appl": "pay"}[k]
                    t = dict(group[gidx])
                    t["TypeEnum"] = {"pay": 1, "axfer": 4}[other]
                    t["Type"] = other.encode()
                    group[gidx] = t
                    break
                tpos += 1
    return group, len(group) - 1, expect


def sdk_txn_to_ctx(t):
    d = {"Sender": sdkenc.decode_address(t.sender), "Fee": t.fee, "FirstValid": t.first_valid_round,
         "LastValid": t.last_valid_round}
    if isinstance(t, sdktxn.PaymentTxn):
        d.update(TypeEnum=1, Type=b"pay", Receiver=sdkenc.decode_address(t.receiver), Amount=t.amt)
    elif isinstance(t, sdktxn.AssetTransferTxn):
        d.update(TypeEnum=4, Type=b"axfer", AssetReceiver=sdkenc.decode_address(t.receiver), AssetAmount=t.amount, XferAsset=t.index)
    elif isinstance(t, sdktxn.ApplicationCallTxn):
        d.update(TypeEnum=6, Type=b"appl", ApplicationID=t.index, OnCompletion=int(t.on_complete),
                 ApplicationArgs=[bytes(a) for a in (t.app_args or [])],
                 Accounts=[sdkenc.decode_address(a) for a in (t.accounts or [])],
                 Assets=list(t.foreign_assets or []), Applications=list(t.foreign_apps or []))
    else:
        raise AssertionError(type(t))
    return d


def teal_selectors(text):
    p = asm.assemble(text)
    return sorted(set(bytes(i.args[0]) for i in p.instrs if i.op == "method" and i.args))


def check_case(case, out, versions):
    cnt, oc = out["counters"], out["outcomes"]
    params, ret = case["params"], case.get("ret")
    name = case.get("name", "meth")
    override = case.get("override")          # name given at registration instead of the Python function's
    argnames = case.get("argnames") or ["a%d" % i for i in range(len(params))]
    sig = method_sig(override or name, params, ret)
    for ver in versions:
        try:
            router = pt.Router("r", pt.BareCallActions(no_op=pt.OnCompleteAction.create_only(pt.Approve())),
                               clear_state=pt.Approve())
            if case.get("via") == "decorator":
                router.method(name=override)(build_method(name, params, ret, argnames, raw=True))
            elif override is not None:
                router.add_method_handler(build_method(name, params, ret, argnames), overriding_name=override)
            else:
                router.add_method_handler(build_method(name, params, ret, argnames))
            approval, clear, contract = router.compile_program(version=ver)
        except drive.PT_ERRORS as e:
            oc["rejected"] = oc.get("rejected", 0) + 1
            if case.get("expect_ok", True):
                out["violations"].append({"driver": "build", "size": len(params), "title": "%s rejected at v%d: %s" % (sig, ver, str(e)[:150]),
                                          "case": case, "version": ver, "features": {"why": "rejected"}})
            continue
        except Exception as e:
            out["violations"].append({"driver": "build", "size": len(params), "title": "%s crashed at v%d: %r" % (sig, ver, e),
                                      "case": case, "version": ver, "features": {"why": "crash"}})
            continue
        # contract description
        csigs = [m.get_signature() for m in contract.methods]
        csels = sorted(m.get_selector() for m in contract.methods)
        if csigs != [sig] or csels != teal_selectors(approval):
            out["violations"].append({"driver": "contract", "size": len(params),
                                      "title": "contract lists %r (selectors %r) but the program dispatches on %r; expected %r" % (
                                          csigs, [s.hex() for s in csels], [s.hex() for s in teal_selectors(approval)], sig),
                                      "case": case, "version": ver,
                                      "features": {"why": "contract", "override": override is not None,
                                                   "positional_output": "output" in argnames}})
        elif [a.name for a in contract.methods[0].args] != list(argnames):
            out["violations"].append({"driver": "contract", "size": len(params),
                                      "title": "contract names the arguments of %s %r, the method declares %r" % (
                                          sig, [a.name for a in contract.methods[0].args], list(argnames)),
                                      "case": case, "version": ver, "features": {"why": "contract"}})
        pa = asm.assemble(approval)
        for variant in (0, 1):
            for wrong in ((False, True) if any(is_txn(k) and k != "txn" for k in params) else (False,)):
                try:
                    group, gi, expect = build_group(sig, params, variant, wrong_txn_type=wrong)
                except Exception as e:
                    oc["client_error"] = oc.get("client_error", 0) + 1
                    continue
                res = interp.run(pa, interp.Ctx(mode="A", group=group, group_index=gi), fuel=100000)
                cnt["traces_validated"] = cnt.get("traces_validated", 0) + 1
                why = None
                if wrong:
                    oc["wrong_txn:" + res.verdict] = oc.get("wrong_txn:" + res.verdict, 0) + 1
                    if res.verdict != "FAIL" and res.verdict != "REJECT":
                        why = "wrong transaction type in the group was accepted"
                else:
                    oc[res.verdict] = oc.get(res.verdict, 0) + 1
                    if res.verdict != "APPROVE":
                        why = "call not approved: %s %s (line %s)" % (res.verdict, res.why, res.line)
                    else:
                        logs = list(res.logs)
                        want = []
                        ntx = sum(1 for k in params if is_txn(k))
                        tpos = 0
                        for (tag, kind, val), k in zip(expect, params):
                            if kind == "txn":
                                idx = gi - ntx + tpos
                                tpos += 1
                                want.append(tag + val.to_bytes(8, "big") + idx.to_bytes(8, "big"))
                            else:
                                want.append(tag + val)
                        if ret is not None:
                            rv = RET_VALUES[ret if isinstance(ret, str) else repr(ret)]
                            want.append(RETURN_PREFIX + abi_gen.encode(ret, rv))
                        if logs != want:
                            for j, (a, b) in enumerate(itertools.zip_longest(logs, want)):
                                if a != b:
                                    why = "log %d is %s, expected %s" % (j, a.hex() if a is not None else None, b.hex() if b is not None else None)
                                    break
                if why:
                    out["violations"].append({
                        "driver": "call", "size": len(params), "title": "%s v%d variant %d%s: %s" % (sig, ver, variant, " (wrong txn type)" if wrong else "", why),
                        "case": case, "version": ver, "variant": variant, "wrong": wrong, "teal": approval,
                        "features": {"why": why.split(":")[0][:30], "nparams": len(params)}})


def _worker(items, base):
    out = {"counters": {}, "outcomes": {}, "violations": [], "samples": []}
    for case in items:
        if "lifecycle" in case:
            # router life cycles (compile - register - compile): the contract and the dispatch of the last
            # compilation must cover exactly the methods registered by then
            from . import c08
            c08.check_lifecycle(case, out, _VERSIONS)
            out["counters"]["states"] = out["counters"].get("states", 0) + 1
            continue
        check_case(case, out, _VERSIONS)
        out["counters"]["states"] = out["counters"].get("states", 0) + 1
        out["counters"]["transitions"] = out["counters"].get("transitions", 0) + max(1, len(case["params"]))
    if items and base % 53 == 0 and "params" in items[0]:
        out["samples"].append({"signature": method_sig("meth", items[0]["params"], items[0].get("ret")), "case": items[0]})
    return out


def cases(tier):
    out = []
    rets = [None, "uint64", "string", ["tuple", "uint64", "string"]]
    # plain parameter lists of every length 0..17 by position pattern
    for n in range(0, 18):
        pats = []
        for t in PLAIN:
            pats.append([t] * n)
        pats.append([PLAIN[i % len(PLAIN)] for i in range(n)])
        pats.append([PLAIN[(i + 2) % len(PLAIN)] for i in range(n)])
        if n:
            pats.append(["uint64"] * (n - 1) + ["string"])
            pats.append(["bool"] * (n - 1) + [["tuple", "uint64", "string"]])
        seen = set()
        for k, p in enumerate(pats):
            if repr(p) in seen:
                continue
            seen.add(repr(p))
            out.append({"params": p, "ret": rets[(n + k) % len(rets)]})
    # every list of length <= 3 over the plain alphabet (quick: <= 2)
    L = 2 if tier == "quick" else 3
    for n in range(1, L + 1):
        for p in itertools.product(PLAIN, repeat=n):
            for ret in (None, "uint64") if n == L else rets:
                out.append({"params": list(p), "ret": ret})
    # transaction parameters at every position of lists of length <= 4, 1-3 of them
    tk = list(TXN_KINDS)
    for n in range(1, 5):
        for pos in itertools.product([0, 1], repeat=n):
            if not 1 <= sum(pos) <= 3:
                continue
            for kinds in ([tk[(i) % 4] for i in range(n)], [tk[(i + 1) % 4] for i in range(n)], ["pay"] * n):
                params = [kinds[i] if pos[i] else PLAIN[i % 3] for i in range(n)]
                out.append({"params": params, "ret": None if n % 2 else "uint64"})
    # reference parameters
    rk = list(REF_KINDS)
    for n in range(1, 5):
        for pos in itertools.product([0, 1], repeat=n):
            if not 1 <= sum(pos) <= 3:
                continue
            for shift in range(3):
                params = [rk[(i + shift) % 3] if pos[i] else PLAIN[i % 3] for i in range(n)]
                out.append({"params": params, "ret": "string" if n % 2 else None})
    # the tuple cutoff counts application arguments only: 13..16 plain parameters together with 1..3
    # transaction parameters (front / back / spread), last plain parameter static or dynamic
    for nplain in (13, 14, 15, 16):
        for ntx in (1, 2, 3):
            for last in ("string", "uint64", ["tuple", "uint64", "string"]):
                plain = ["uint64"] * (nplain - 1) + [last]
                txs = [tk[(i + 1) % 4] for i in range(ntx)]
                out.append({"params": txs + plain, "ret": "string"})
                out.append({"params": plain + txs, "ret": None})
                spread = list(plain)
                for j, t in enumerate(txs):
                    spread.insert(min(len(spread), 5 * j + 2), t)
                out.append({"params": spread, "ret": "uint64"})
    # references count as application arguments
    for nplain in (13, 14, 15):
        out.append({"params": ["account"] + ["uint64"] * nplain + ["asset"], "ret": None})
        out.append({"params": ["pay", "application"] + ["bool"] * nplain + ["string"], "ret": "string"})
    # mixed: references + transactions + 15+ plain args
    out.append({"params": ["pay", "account"] + ["uint64"] * 15 + ["asset"], "ret": "uint64"})
    out.append({"params": ["application", "appl"] + ["string"] * 16, "ret": None})
    out.append({"params": ["uint64"] * 14 + ["account", "asset", "application", "string"], "ret": "string"})
    seen, res = set(), []
    for c in out:
        k = repr(c)
        if k not in seen:
            seen.add(k)
            res.append(c)
    return res


def contract_cases():
    """naming: the name under which a method is registered (the Python function's, or an overriding one, through
    add_method_handler and through @router.method(name=...)) x parameter-name alphabets (positional names that
    collide with PyTeal's reserved keyword names) x parameter lists of length <= 2; the contract must list what
    the program dispatches on"""
    out = []
    name_alphabets = {1: [["a0"], ["output"], ["self"], ["args"]], 2: [["a0", "a1"], ["output", "a1"], ["a0", "output"], ["ret", "return_"]]}
    for override in (None, "other", "meth2"):
        for via in ("handler", "decorator"):
            out.append({"params": [], "ret": "uint64", "override": override, "via": via})
            for n in (1, 2):
                for p in itertools.product(("uint64", "string"), repeat=n):
                    for names in name_alphabets[n]:
                        for ret in (None, "uint64"):
                            if ret is not None and "output" in names:
                                continue    # Python itself forbids two parameters of one name
                            out.append({"params": list(p), "ret": ret, "override": override, "via": via, "argnames": names})
    return out


TYPED = {"pay": (abi.PaymentTransaction, 1), "keyreg": (abi.KeyRegisterTransaction, 2), "acfg": (abi.AssetConfigTransaction, 3),
         "axfer": (abi.AssetTransferTransaction, 4), "afrz": (abi.AssetFreezeTransaction, 5), "appl": (abi.ApplicationCallTransaction, 6)}


def typed_txn_driver(rep, versions, only=None):
    """every typed transaction parameter kind x every actual transaction type in front of the call x
    {constants left to the assembler, constants assembled by PyTeal} x position of the parameter: the call must be
    accepted exactly when the transaction in that position has the declared type"""
    for ver in versions:
        for ac in (False, True):
            for kind, (cls, enum) in TYPED.items():
                for extra in (0, 1):       # a plain uint64 argument in front of the transaction parameter or not
                    key = [ver, ac, kind, extra]
                    if only is not None and key != only:
                        continue

                    def viol(why, text=None):
                        rep.violations.append({
                            "driver": "typed-txn", "size": 1 + extra,
                            "title": "m(%s%s) v%d assemble_constants=%s: %s" % ("uint64," if extra else "", kind, ver, ac, why),
                            "case": {"typed_txn": key}, "version": ver, "teal": text,
                            "features": {"why": "typed-txn " + why.split(":")[0][:30]}})
                    try:
                        router = pt.Router("t", pt.BareCallActions(no_op=pt.OnCompleteAction.create_only(pt.Approve())),
                                           clear_state=pt.Approve())

                        def impl(*a):
                            return pt.Log(pt.Concat(pt.Bytes("seen"), pt.Itob(a[-1].get().type_enum())))
                        ns = {"__impl": impl}
                        names = (["n"] if extra else []) + ["t"]
                        exec("def m(%s):\n    return __impl(%s)\n" % (", ".join(names), ", ".join(names)), ns)
                        fn = ns["m"]
                        ann = {"n": abi.Uint64} if extra else {}     # in parameter order, as Python itself records them
                        ann.update({"t": cls, "return": pt.Expr})
                        fn.__annotations__ = ann
                        router.add_method_handler(pt.ABIReturnSubroutine(fn))
                        approval, _c, contract = router.compile_program(version=ver, assemble_constants=ac)
                    except Exception as e:
                        viol("does not build: %r" % (e,))
                        continue
                    sel = contract.methods[0].get_selector()
                    pa = asm.assemble(approval)
                    for actual in range(1, 7):
                        first = interp.default_txn(TypeEnum=actual, Type=interp.TYPE_BYTES[actual])
                        call = interp.default_txn(ApplicationArgs=[sel] + ([(9).to_bytes(8, "big")] if extra else []))
                        res = interp.run(pa, interp.Ctx(mode="A", group=[first, call], group_index=1), fuel=20000)
                        rep.add("traces_validated")
                        want = actual == enum
                        rep.outcomes["typed:%s" % res.verdict] = rep.outcomes.get("typed:%s" % res.verdict, 0) + 1
                        if want and (res.verdict != "APPROVE" or res.logs != [b"seen" + actual.to_bytes(8, "big")]):
                            viol("a %s transaction in front of the call is refused: %s %s" % (interp.TYPE_BYTES[actual].decode(), res.verdict, res.why), approval)
                        elif not want and res.verdict == "APPROVE":
                            viol("a %s transaction is accepted for a parameter declared %s" % (interp.TYPE_BYTES[actual].decode(), kind), approval)


def run(tier):
    global _VERSIONS
    rep = common.Report(PID, tier)
    rep.rule = ("every method signature of the enumerated families (a state) x 2 value variants (+ a wrong-transaction-type "
                "variant) x versions; groups built by algosdk's AtomicTransactionComposer")
    _VERSIONS = (6, 8, 10) if tier == "quick" else (6, 7, 8, 9, 10)
    from . import c08
    items = cases(tier) + contract_cases() + c08.lifecycle_cases(4 if tier == "quick" else 5)
    rep.bounds["signatures"] = len(items)
    rep.bounds["versions"] = list(_VERSIONS)
    for sh in common.pmap_shards(_worker, items, shard_size=3, order_seed=rep.seed):
        rep.merge(sh)
    typed_txn_driver(rep, _VERSIONS)
    # two methods that cannot be told apart by selector: a call meant for the second would be handed to the first
    # (the contract lists both) - the second registration has to be refused (C08's family (f), shared)
    cout = {"counters": {}, "outcomes": {}, "violations": [], "samples": []}
    for kind in ("collide", "collide-rev", "same"):
        c08.check_collision({"collision": kind}, cout, _VERSIONS)
    rep.merge(cout)
    rep.counters["distinct_nontrivial"] = rep.counters.get("states", 0)
    rep.assumptions = ["algosdk AtomicTransactionComposer / abi codec as the ARC-4 client reference", "reference AVM"]
    if not rep.outcomes.get("APPROVE") or not rep.outcomes.get("wrong_txn:FAIL"):
        raise common.MachineryError("vacuous: %r" % (rep.outcomes,))
    return rep.finish()


def replay(case):
    out = {"counters": {}, "outcomes": {}, "violations": [], "samples": []}
    if "typed_txn" in case["case"]:
        rep = common.Report(PID, "quick")
        typed_txn_driver(rep, (case["case"]["typed_txn"][0],), only=case["case"]["typed_txn"])
        for v in rep.violations[:5]:
            print("still violates:", v["title"][:300])
        return bool(rep.violations)
    if "collision" in case["case"]:
        from . import c08
        c08.check_collision(case["case"], out, (case["version"],))
    elif "lifecycle" in case["case"]:
        from . import c08
        c08.check_lifecycle(case["case"], out, (case["version"],))
    else:
        check_case(case["case"], out, (case["version"],))
    for v in out["violations"][:5]:
        print("still violates:", v["title"][:300])
    return bool(out["violations"])
