"""C10 - every variable is its own storage cell; slot limits are enforced.

Populations of n simultaneously live cells for every n of a list crossing 128 and 256,
x requested-id patterns x placement (main / split over subroutines / shared) x kinds
(ScratchVar, ABI value, MaybeValue outputs, DynamicScratchVar alias) x options.  Each
program writes a distinct marker into every cell, calls the other routines, and reads all
cells back; the compiled program must approve, requested ids must be the ones index()
observes, and more than 256 cells or duplicate requested ids must be rejected.
"""
import pyteal as pt
from pyteal import abi

from .. import common, drive
from ..avm import asm, interp
from ..recipe import build as rb

PID = "C10"


def req_pattern(name, n):
    """-> dict index -> requested slot id"""
    if name == "none":
        return {}
    if name == "zero":
        return {n - 1: 0}
    if name == "top":
        return {0: 255}
    if name == "both":
        return {0: 255, n - 1: 0} if n > 1 else {0: 255}
    if name == "low_block":
        k = min(n, 5)
        return {n - 1 - i: i for i in range(k)}  # the *last* variables ask for the ids the first would get
    if name == "mid_block":
        # consecutive requested ids that do not start at 0, asked for by the *last* variables
        k = min(n, 3)
        return {n - 1 - i: 3 + i for i in range(k)}
    if name == "high_block":
        k = min(n, 4)
        return {i: 10 + i for i in range(k)}
    if name == "pairs":
        # several separate runs of two consecutive ids
        return {i: (5 * (i // 2) + 2 + i % 2) for i in range(min(n, 8))}
    if name == "interleaved":
        return {i: 2 * i + 1 for i in range(0, min(n, 100), 3)}
    if name == "half":
        # every second variable requests an id, from 255 downwards: MANY requested ids beside many automatic ones
        return {i: 255 - i // 2 for i in range(0, n, 2) if i // 2 < 256}
    if name == "dup":
        return {0: 9, n - 1: 9} if n > 1 else {0: 9}
    raise AssertionError(name)


def build_case(case):
    """-> (Expr, expected cells, expect_error)"""
    n = case["n"]
    kind = case["kind"]
    placement = case["placement"]
    req = req_pattern(case["req"], n)
    M = lambda i: pt.Int(100000 + i)

    def mk(i):
        if i in req:
            return pt.ScratchVar(pt.TealType.uint64, req[i])
        return pt.ScratchVar(pt.TealType.uint64)

    def checks(vs, idxs):
        out = []
        for v, i in zip(vs, idxs):
            out.append(pt.Assert(v.load() == M(i)))
            if i in req:
                out.append(pt.Assert(v.index() == pt.Int(req[i])))
        return out

    extra_cells = 0
    if kind == "scratchvar" or kind == "dyn":
        if placement == "twin_blocks":
            # per variable two sibling blocks of the same shape: the first writes it and reads it back at once, the
            # second reads it again at the SAME position inside its own block (beside another variable's write)
            vs = [mk(i) for i in range(n)]
            ws = [pt.ScratchVar(pt.TealType.uint64) for _ in range(n)]
            cond = pt.Txn.fee() < pt.Int(1 << 40)
            body = [v.store(pt.Int(0)) for v in vs]     # every path writes a variable before reading it
            for i, (v, w) in enumerate(zip(vs, ws)):
                body.append(pt.If(cond).Then(pt.Seq(v.store(M(i)), pt.Assert(v.load() == M(i)))))
                body.append(pt.If(cond).Then(pt.Seq(w.store(pt.Int(7000 + i)), pt.Assert(v.load() == M(i)),
                                                    pt.Assert(w.load() == pt.Int(7000 + i)))))
            body += [pt.Assert(v.index() == pt.Int(req[i])) for i, v in enumerate(vs) if i in req]
            return pt.Seq(*body, pt.Int(1)), 2 * n
        if placement == "dyn_byref":
            # a DynamicScratchVar aimed at one of the variables goes BY REFERENCE into a subroutine (directly and
            # forwarded once more): the callee's write lands in the variable aimed at, the alias still observes the
            # same slot afterwards, the neighbours keep their values
            vs = [mk(i) for i in range(n)]
            d = pt.DynamicScratchVar(pt.TealType.uint64)

            def bump(v):
                return v.store(v.load() + pt.Int(7))
            bump.__annotations__ = {"v": pt.ScratchVar}
            bump_s = pt.Subroutine(pt.TealType.none)(bump)

            def forward(v):
                return pt.Seq(bump_s(v), v.store(v.load() + pt.Int(1)))
            forward.__annotations__ = {"v": pt.ScratchVar}
            forward_s = pt.Subroutine(pt.TealType.none)(forward)
            body = [v.store(M(i)) for i, v in enumerate(vs)]
            for i in sorted(set([0, n // 2, n - 1])):
                body += [d.set_index(vs[i]), bump_s(d), pt.Assert(vs[i].load() == M(i) + pt.Int(7)),
                         pt.Assert(d.index() == vs[i].index()), pt.Assert(d.load() == M(i) + pt.Int(7)),
                         forward_s(d), pt.Assert(vs[i].load() == M(i) + pt.Int(15)),
                         pt.Assert(d.index() == vs[i].index()),
                         forward_s(vs[i]), pt.Assert(d.load() == M(i) + pt.Int(23)), vs[i].store(M(i))]
            body += checks(vs, range(n))
            # cells: the n variables, the alias, and one cell per by-reference parameter (it holds the slot id in
            # every calling convention)
            return pt.Seq(*body, pt.Int(1)), n + 3
        if placement == "reuse_blocks":
            # a variable written in the entry block and read in a conditional arm, then written again behind the join
            # and read back at once (the earlier read is not reachable from that second pair): every read returns
            # the value last stored
            vs = [mk(i) for i in range(n)]
            cond = pt.Txn.fee() < pt.Int(1 << 40)
            body = []
            for i, v in enumerate(vs):
                w = pt.ScratchVar(pt.TealType.uint64)
                body += [v.store(M(i)),
                         # (reads in operand positions where a value left behind by a deleted store cannot stand in)
                         pt.If(cond).Then(pt.Seq(w.store(M(i) + pt.Int(5)), pt.Assert(w.load() - v.load() == pt.Int(5)),
                                                 pt.Assert(v.load() + v.load() == M(i) + M(i)),
                                                 pt.Assert(w.load() - pt.Int(5) == v.load()))),
                         v.store(M(i) + pt.Int(1)), pt.Assert(v.load() == M(i) + pt.Int(1))]
            body += [pt.Assert(v.index() == pt.Int(req[i])) for i, v in enumerate(vs) if i in req]
            return pt.Seq(*body, pt.Int(1)), 2 * n
        if placement == "abi_byref":
            # a variable passed BY REFERENCE to an ABI-returning subroutine (keyword-only output) behind / in front of
            # an ABI argument: the callee's write lands in that variable, the neighbours keep their values
            vs = [mk(i) for i in range(n)]
            kk, r1, r2 = abi.Uint64(), abi.Uint64(), abi.Uint64()

            def add_last(k, v, *, output):
                return pt.Seq(v.store(v.load() + k.get()), output.set(v.load() + pt.Int(1)))
            add_last.__annotations__ = {"k": abi.Uint64, "v": pt.ScratchVar, "output": abi.Uint64, "return": pt.Expr}
            add_last_s = pt.ABIReturnSubroutine(add_last)

            def add_first(v, k, *, output):
                return pt.Seq(v.store(v.load() + k.get() + pt.Int(2)), output.set(v.load()))
            add_first.__annotations__ = {"v": pt.ScratchVar, "k": abi.Uint64, "output": abi.Uint64, "return": pt.Expr}
            add_first_s = pt.ABIReturnSubroutine(add_first)
            body = [v.store(M(i)) for i, v in enumerate(vs)] + [kk.set(pt.Int(7))]
            for i in sorted(set([0, n // 2, n - 1])):
                body += [r1.set(add_last_s(kk, vs[i])), pt.Assert(vs[i].load() == M(i) + pt.Int(7)),
                         pt.Assert(r1.get() == M(i) + pt.Int(8)),
                         r2.set(add_first_s(vs[i], kk)), pt.Assert(vs[i].load() == M(i) + pt.Int(16)),
                         pt.Assert(r2.get() == M(i) + pt.Int(16)), pt.Assert(kk.get() == pt.Int(7)), vs[i].store(M(i))]
            body += checks(vs, range(n))
            return pt.Seq(*body, pt.Int(1)), n + 9
        if placement == "main_branch":
            # everything happens in a block that is NOT the routine's entry block, and every cell is read back
            # right after it was written (adjacent store/load: the shape the slot optimiser looks for)
            vs = [mk(i) for i in range(n)]
            body = []
            for i, v in enumerate(vs):
                body += [v.store(M(i)), pt.Assert(v.load() == M(i))]
            body += [pt.Assert(v.index() == pt.Int(req[i])) for i, v in enumerate(vs) if i in req]
            if kind == "dyn":
                d = pt.DynamicScratchVar(pt.TealType.uint64)
                extra_cells += 1
                for i in sorted(set([0, n // 2, n - 1])):
                    body += [d.set_index(vs[i]), pt.Assert(d.load() == M(i))]
            return pt.Seq(pt.If(pt.Txn.fee() < pt.Int(1 << 40)).Then(pt.Seq(*body)), pt.Int(1)), n + extra_cells
        if placement == "main":
            vs = [mk(i) for i in range(n)]
            body = [v.store(M(i)) for i, v in enumerate(vs)] + checks(vs, range(n))
            if kind == "dyn":
                d = pt.DynamicScratchVar(pt.TealType.uint64)
                extra_cells += 1
                for i in sorted(set([0, n // 2, n - 1])):
                    body += [d.set_index(vs[i]), pt.Assert(d.load() == M(i)), d.store(M(i) + pt.Int(7)),
                             pt.Assert(vs[i].load() == M(i) + pt.Int(7)), vs[i].store(M(i))]
                    # neighbours untouched
                    if i + 1 < n:
                        body.append(pt.Assert(vs[i + 1].load() == M(i + 1)))
                    body.append(pt.Assert(pt.ScratchVar(pt.TealType.uint64).load() == pt.Int(0)) if False else pt.Seq())
            expr = pt.Seq(*body, pt.Int(1))
            return expr, n + extra_cells
        # split over main + k subroutines: main owns the first part, each sub its own locals
        k = {"split1": 1, "split2": 2, "shared": 1}[placement]
        parts = []
        per = max(1, n // (k + 1))
        bounds = [0] + [per * (j + 1) for j in range(k)] + [n]
        bounds = sorted(set(min(b, n) for b in bounds))
        if bounds[-1] != n:
            bounds.append(n)
        main_vs = [mk(i) for i in range(bounds[0], bounds[1])]
        shared = pt.ScratchVar(pt.TealType.uint64) if placement == "shared" else None
        if shared is not None:
            extra_cells += 1
        subs = []
        for j in range(1, len(bounds) - 1):
            lo, hi = bounds[j], bounds[j + 1]

            def make(lo=lo, hi=hi, j=j):
                def body_fn():
                    vs = [mk(i) for i in range(lo, hi)]
                    b = [v.store(M(i)) for v, i in zip(vs, range(lo, hi))]
                    if shared is not None:
                        b.append(pt.Assert(shared.load() == pt.Int(4242)))
                        b.append(shared.store(pt.Int(4243)))
                    b += checks(vs, range(lo, hi))
                    return pt.Seq(*b)
                body_fn.__name__ = "part%d" % j
                return pt.Subroutine(pt.TealType.none)(body_fn)
            subs.append(make())
        body = [v.store(M(i)) for v, i in zip(main_vs, range(bounds[0], bounds[1]))]
        if shared is not None:
            body.append(shared.store(pt.Int(4242)))
        body += [s() for s in subs]
        body += checks(main_vs, range(bounds[0], bounds[1]))
        if shared is not None:
            body.append(pt.Assert(shared.load() == pt.Int(4243)))
        return pt.Seq(*body, pt.Int(1)), n + extra_cells
    if kind == "abi":
        # n ABI uint64 values; in a subroutine they become frame locals under frame pointers (<=128), else scratch
        def alloc_and_check():
            vals = [abi.Uint64() for _ in range(n)]
            b = [v.set(M(i)) for i, v in enumerate(vals)]
            b += [pt.Assert(v.get() == M(i)) for i, v in enumerate(vals)]
            return b
        if placement == "main":
            return pt.Seq(*alloc_and_check(), pt.Int(1)), n

        if placement == "abisub":
            # the same inside an ABI-returning subroutine: its output value occupies a frame cell of its own
            def inner_abi(*, output):
                return pt.Seq(*alloc_and_check(), output.set(pt.Int(4321)))
            inner_abi.__name__ = "abi_locals_ret"
            inner_abi.__annotations__ = {"output": abi.Uint64, "return": pt.Expr}
            asub = pt.ABIReturnSubroutine(inner_abi)
            marker = pt.ScratchVar(pt.TealType.uint64)
            res = abi.Uint64()
            return pt.Seq(marker.store(pt.Int(77)), res.set(asub()), pt.Assert(marker.load() == pt.Int(77)),
                          pt.Assert(res.get() == pt.Int(4321)), pt.Int(1)), n + 3

        def inner():
            return pt.Seq(*alloc_and_check())
        inner.__name__ = "abi_locals"
        sub = pt.Subroutine(pt.TealType.none)(inner)
        marker = pt.ScratchVar(pt.TealType.uint64)
        return pt.Seq(marker.store(pt.Int(77)), sub(), pt.Assert(marker.load() == pt.Int(77)), pt.Int(1)), n + 1
    if kind == "maybe":
        # n MaybeValue pairs (2 cells each) kept alive together
        mvs = [pt.App.globalGetEx(pt.Int(0), pt.Bytes("base16", "%04x" % i)) for i in range(n)]
        b = list(mvs)
        for i, mv in enumerate(mvs):
            b.append(pt.Assert(mv.hasValue() == pt.Int(1 if i % 2 == 0 else 0)))
            b.append(pt.Assert(mv.value() == (M(i) if i % 2 == 0 else pt.Int(0))))
        return pt.Seq(*b, pt.Int(1)), 2 * n
    raise AssertionError(kind)


def maybe_globals(n):
    return {bytes.fromhex("%04x" % i): 100000 + i for i in range(0, n, 2)}


def check_case(case, out):
    cnt, oc = out["counters"], out["outcomes"]
    cfg = rb.Cfg.from_json(case["cfg"])
    cnt["traces_validated"] = cnt.get("traces_validated", 0) + 1
    dup = case["req"] == "dup" and case["n"] > 1 and case["kind"] in ("scratchvar", "dyn")
    try:
        expr, cells = build_case(case)
        text = rb.compile_cfg(expr, cfg)
        st = "ok"
    except drive.PT_ERRORS as e:
        st, text = "pterr", e
        cells = None
    except Exception as e:
        st, text = "crash", e
        cells = None
    if cells is None:
        try:
            _e, cells = build_case(case)
        except Exception:
            cells = -1
    fp_locals = case["kind"] == "abi" and case["placement"] != "main" and cfg.uses_frame_pointers()
    scratch_cells = cells
    if fp_locals and case["placement"] == "abisub":
        # frame: the output value + up to 127 locals; scratch: the overflow, main's marker and result holder
        scratch_cells = max(0, case["n"] - 127) + 2
    elif fp_locals:
        scratch_cells = max(0, case["n"] - 128) + 1
    too_many = scratch_cells > 256
    if case["placement"] == "abisub" and not fp_locals and scratch_cells == 257 and st == "ok":
        # the slot optimiser may cancel the callee's "store output; load output" pair: one cell fewer is legitimate
        p0 = asm.assemble(text)
        if len(set(i.args[0] for i in p0.instrs if i.op in ("store", "load") and i.args)) <= 256:
            too_many = False
            scratch_cells = 256
    oc["%s:%s" % (st, "over" if too_many else ("dup" if dup else "fits"))] = oc.get("%s:%s" % (st, "over" if too_many else ("dup" if dup else "fits")), 0) + 1
    why = None
    if st == "crash":
        why = "compile crashed: %r" % (text,)
    elif too_many or dup:
        if st == "ok":
            why = "program needing %d slots / duplicate ids compiled (silent aliasing)" % scratch_cells
    elif st == "pterr":
        why = "valid program with %d cells rejected: %s" % (scratch_cells, str(text)[:100])
    else:
        p = asm.assemble(text)
        bad = [m for _l, m in p.issues if "backward" not in m]
        if bad:
            why = "emitted program does not assemble: %s" % bad[0]
        else:
            glob = maybe_globals(case["n"]) if case["kind"] == "maybe" else {}
            res = interp.run(p, interp.Ctx(mode="A", group=[interp.default_txn()], globals_=glob), fuel=400000)
            cnt["executions"] = cnt.get("executions", 0) + 1
            if res.verdict != "APPROVE":
                why = "program with %d cells does not approve: %s %s at line %s" % (cells, res.verdict, res.why, res.line)
            elif case["kind"] in ("scratchvar", "dyn") and case["placement"] in ("main", "main_branch", "twin_blocks", "dyn_byref", "abi_byref") and any(
                    res.scratch[sid] != 100000 + i for i, sid in req_pattern(case["req"], case["n"]).items()):
                # "an explicitly requested slot id is the slot actually used"
                bad_ = [(i, sid, res.scratch[sid]) for i, sid in req_pattern(case["req"], case["n"]).items() if res.scratch[sid] != 100000 + i]
                why = "variable %d requested slot %d and holds %d, but slot %d contains %r when the program ends" % (
                    bad_[0][0], bad_[0][1], 100000 + bad_[0][0], bad_[0][1], bad_[0][2])
            else:
                # static cross-check: number of distinct slots stored == scratch cells actually written
                slots = set(i.args[0] for i in p.instrs if i.op == "store" and i.args)
                if len(slots) > 256 or any(s > 255 for s in slots):
                    why = "slot ids out of range: %r" % sorted(slots)[-3:]
    if why:
        out["violations"].append({"driver": case["kind"], "size": case["n"], "title": "%s: %s" % (common.jdump(case), why),
                                  "case": case, "teal": text if st == "ok" and len(text) < 6000 else None,
                                  "features": {"kind": case["kind"], "why": why.split(":")[0][:40]}})


def _worker(items, base):
    out = {"counters": {}, "outcomes": {}, "violations": [], "samples": []}
    for case in items:
        check_case(case, out)
        out["counters"]["states"] = out["counters"].get("states", 0) + 1
        out["counters"]["transitions"] = out["counters"].get("transitions", 0) + 1
    if items and base % 397 == 0:
        out["samples"].append(items[0])
    return out


def run(tier):
    rep = common.Report(PID, tier)
    rep.rule = ("n live cells for every n in the list x requested-id pattern x placement x kind x option setting; a state "
                "= one population, reached from the population with one cell fewer")
    if tier == "quick":
        ns = list(range(1, 9)) + [126, 127, 128, 129, 130, 254, 255, 256, 257, 258, 300]
    else:
        # every n up to 40, every 7th beyond, and every n around the 128 / 256 boundaries
        ns = sorted(set(list(range(1, 41)) + list(range(41, 301, 7)) + list(range(120, 137)) + list(range(248, 265)) + [300]))
    cfgs = [rb.Cfg(6, "A"), rb.Cfg(6, "A", scratch_slots=True), rb.Cfg(8, "A"), rb.Cfg(8, "A", frame_pointers=False),
            rb.Cfg(10, "A"), rb.Cfg(10, "A", scratch_slots=False)]
    items = []
    for n in ns:
        for req in ("none", "zero", "top", "both", "low_block", "mid_block", "high_block", "pairs", "interleaved", "half", "dup"):
            for placement in ("main", "split1", "split2", "shared", "dyn_byref"):
                for kind in ("scratchvar", "dyn"):
                    if kind == "dyn" and placement not in ("main", "dyn_byref"):
                        continue
                    if placement == "dyn_byref" and (kind != "dyn" or n > 8 and req not in ("none", "top")):
                        continue
                    if placement != "main" and n < 3:
                        continue  # nothing to split
                    for cfg in (cfgs if tier == "thorough" or req in ("none", "low_block") else cfgs[:1] + cfgs[2:3]):
                        items.append({"n": n, "req": req, "placement": placement, "kind": kind, "cfg": cfg.to_json()})
        if n <= 8:
            for req in ("none", "top", "low_block"):
                for cfg in cfgs:
                    items.append({"n": n, "req": req, "placement": "twin_blocks", "kind": "scratchvar", "cfg": cfg.to_json()})
                    items.append({"n": n, "req": req, "placement": "abi_byref", "kind": "scratchvar", "cfg": cfg.to_json()})
                    items.append({"n": n, "req": req, "placement": "reuse_blocks", "kind": "scratchvar", "cfg": cfg.to_json()})
        if n <= 130:
            for req in ("none", "top", "both", "low_block", "mid_block", "interleaved"):
                for kind in ("scratchvar", "dyn"):
                    for cfg in cfgs:
                        items.append({"n": n, "req": req, "placement": "main_branch", "kind": kind, "cfg": cfg.to_json()})
        for placement in ("main", "sub", "abisub"):
            for cfg in cfgs:
                items.append({"n": n, "req": "none", "placement": placement, "kind": "abi", "cfg": cfg.to_json()})
        if n <= 130:
            for cfg in cfgs[:3]:
                items.append({"n": n, "req": "none", "placement": "main", "kind": "maybe", "cfg": cfg.to_json()})
    # slot identity across API-call order: a subroutine wrapper queried (its body evaluated on the side, the slot
    # counter rewound) before the rest of the program's variables exist - every variable still its own cell
    from .. import c11_server
    for version in (5, 6, 7, 8, 10):
        for query in (False, True):
            for kw in ({}, {"optimize": pt.OptimizeOptions(scratch_slots=True)}, {"optimize": pt.OptimizeOptions(frame_pointers=False)}):
                rep.add("traces_validated")
                try:
                    text = c11_server.query_build(version, query, **kw)
                    res = interp.run(asm.assemble(text), interp.Ctx(mode="A", group=[interp.default_txn()]), fuel=20000)
                    ok = res.verdict == "APPROVE"
                    why = "%s %s" % (res.verdict, res.why)
                except Exception as e:
                    ok, why, text = False, "does not compile: %r" % (e,), None
                if not ok:
                    rep.violations.append({
                        "driver": "api-order", "size": 3,
                        "title": "7 + outer(5) == 5673 (v%d, wrapper queried before build: %s, options %s): %s" % (
                            version, query, sorted(kw), why),
                        "case": {"api_order": [version, query, sorted(kw)]}, "teal": text,
                        "features": {"kind": "api-order", "why": "variables share a cell"}})
    rep.bounds["n_values"] = ns
    rep.bounds["cases"] = len(items)
    for sh in common.pmap_shards(_worker, items, order_seed=rep.seed):
        rep.merge(sh)
    rep.counters["distinct_nontrivial"] = rep.counters.get("states", 0)
    rep.assumptions = ["reference AVM scratch space and frame semantics"]
    need = ["ok:fits", "pterr:over", "pterr:dup"]
    for k in need:
        if not rep.outcomes.get(k):
            raise common.MachineryError("vacuous: outcome %s never observed (%r)" % (k, rep.outcomes))
    return rep.finish()


def replay(case):
    out = {"counters": {}, "outcomes": {}, "violations": [], "samples": []}
    if "api_order" in case["case"]:
        from .. import c11_server
        version, query, kwn = case["case"]["api_order"]
        kw = {}
        if kwn:
            kw = {"optimize": pt.OptimizeOptions(scratch_slots=True)}
        bad = False
        for k in (kw, {"optimize": pt.OptimizeOptions(frame_pointers=False)}, {}):
            res = interp.run(asm.assemble(c11_server.query_build(version, query, **k)),
                             interp.Ctx(mode="A", group=[interp.default_txn()]), fuel=20000)
            print("verdict:", res.verdict, res.why)
            bad = bad or res.verdict != "APPROVE"
        return bad
    check_case(case["case"], out)
    for v in out["violations"]:
        print("still violates:", v["title"][:300])
    return bool(out["violations"])
