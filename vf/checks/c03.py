"""C03 - compile options change cost and shape, never behaviour.

For every recipe (control flow, call graphs, optimiser-focused store/load sequences) the
program is compiled under every option setting / version at which it compiles; all results
are executed on every input and compared with the pivot (lowest version, no optimisation):
verdict, return value, effects, final contents of user-numbered scratch slots; and, for
pairs that differ only in the slot optimisation, the data stack whenever control leaves a
routine (retsub / return).
"""
import re

from .. import common, drive
from ..avm import asm, interp
from ..recipe import build as rb
from ..recipe import gen_ctrl, gen_sub, gen_opt, gen_abisub

PID = "C03"
_CFGS = None
TICK = "gput"


def configs(tier):
    cf = []
    vs = (4, 6, 8, 10) if tier == "quick" else (2, 3, 4, 5, 6, 7, 8, 9, 10)
    for v in vs:
        cf.append(rb.Cfg(v, "A", scratch_slots=False, frame_pointers=False if v >= 8 else None))
        cf.append(rb.Cfg(v, "A", scratch_slots=True, frame_pointers=False if v >= 8 else None))
        if v >= 8:
            cf.append(rb.Cfg(v, "A", scratch_slots=False, frame_pointers=True))
            cf.append(rb.Cfg(v, "A", scratch_slots=True, frame_pointers=True))
    cf.append(rb.Cfg(9, "A"))  # defaults: both on
    cf.append(rb.Cfg(2, "A"))
    return cf


def user_slots(prog):
    out = set()
    for name, ty in prog.get("vars", {}).items():
        if isinstance(ty, (list, tuple)):
            out.add(ty[1])
    return sorted(out)


_SL = re.compile(r"^(store|load) (\d+)$")


def optimizer_diff_features(unopt, opt):
    """Structural relation between two texts, computed independently of any verdict:
    is `opt` exactly `unopt` minus all store/load ops of some slots (modulo slot renumbering),
    and was one of the deleted stores NOT immediately followed by a load of the same slot?"""
    a = [l.strip() for l in asm.split_lines(unopt) if l.strip() and not l.strip().startswith("#pragma")]
    b = [l.strip() for l in asm.split_lines(opt) if l.strip() and not l.strip().startswith("#pragma")]
    i = j = 0
    ren = {}
    dropped = []  # indices in a
    while i < len(a):
        la = a[i]
        lb = b[j] if j < len(b) else None
        ma = _SL.match(la)
        mb = _SL.match(lb) if lb is not None else None
        if lb is not None and ma and mb and ma.group(1) == mb.group(1):
            sa, sb = ma.group(2), mb.group(2)
            if ren.get(sa, sb) == sb and sa not in [a[k].split()[1] for k in dropped]:
                ren[sa] = sb
                i += 1
                j += 1
                continue
        if lb is not None and la == lb and not ma:
            i += 1
            j += 1
            continue
        if ma:
            dropped.append(i)
            i += 1
            continue
        return {"opt_is_unopt_minus_slot_ops": False}
    if j != len(b):
        return {"opt_is_unopt_minus_slot_ops": False}
    dslots = set(a[k].split()[1] for k in dropped)
    # every access of a dropped slot must be dropped
    for k, l in enumerate(a):
        m = _SL.match(l)
        if m and m.group(2) in dslots and k not in dropped:
            return {"opt_is_unopt_minus_slot_ops": False}
    unpaired = False
    for k in dropped:
        m = _SL.match(a[k])
        if m.group(1) == "store":
            nxt = a[k + 1] if k + 1 < len(a) else ""
            if nxt != "load " + m.group(2):
                unpaired = True
    # a deleted load that did NOT directly follow a store of its slot means the optimiser cancelled a slot that
    # still had a real reader - that is never the recorded finding (which only loses dead stores)
    unpaired_load = False
    for k in dropped:
        m = _SL.match(a[k])
        if m.group(1) == "load":
            prv = a[k - 1] if k > 0 else ""
            if prv != "store " + m.group(2):
                unpaired_load = True
    return {"opt_is_unopt_minus_slot_ops": bool(dropped), "opt_deleted_unpaired_store": unpaired,
            "opt_deleted_unpaired_load": unpaired_load}


def observe(p, prog, inp, cfg):
    res = interp.run(p, drive.ctx_for(inp, cfg), fuel=drive.AVM_FUEL, record_boundaries=True)
    key = drive.observed_outcome(res, TICK)
    live = res.verdict in ("APPROVE", "REJECT")
    us = tuple(res.scratch[s] for s in user_slots(prog)) if live else None
    exit_stack = rets = None
    if live:
        # the main routine owns the whole stack; when the program returns from inside a subroutine the entries
        # below belong to suspended callers (spilled locals are an implementation detail of the convention)
        exit_stack = tuple(res.stack) if res.call_depth == 0 else ("depth", res.call_depth)
        rets = tuple(_ret_views(prog, res.boundaries or ()))
    return key, us, exit_stack, rets, res


def _ret_views(prog, boundaries):
    """for every completed call: (label, net stack height effect, the entries the callee left above the
    caller's part of the stack)"""
    sigs = {}
    for name, sd in prog.get("subs", {}).items():
        sigs[sd.get("pyname", name)] = len(sd["params"])
    pending = []
    for ev in boundaries:
        if ev[0] == "call":
            pending.append(ev)
        elif pending:
            call = pending.pop()
            m = re.match(r"^(.*)_(\d+)$", call[1])
            na = sigs.get(m.group(1) if m else call[1], 0)
            before, after = call[3], ev[3]
            keep = len(before) - na
            yield (call[1], len(after) - len(before), tuple(after[keep:]) if keep >= 0 else tuple(after))


def check_program(prog, cfgs, inputs, out, size, driver):
    cnt, oc = out["counters"], out["outcomes"]
    compiled = []
    for cfg in cfgs:
        if prog.get("subs") and cfg.version < 4:
            continue
        st, text = drive.compile_recipe(prog, cfg, TICK)
        cnt["configs"] = cnt.get("configs", 0) + 1
        if st != "ok":
            cnt["compile_" + st] = cnt.get("compile_" + st, 0) + 1
            continue
        compiled.append((cfg, text, asm.assemble(text)))
    if len(compiled) < 2:
        return
    pivot = compiled[0]
    memo = {}
    for ii, inp in enumerate(inputs):
        obs = []
        for cfg, text, p in compiled:
            k = (p.stream(), ii)
            o = memo.get(k)
            if o is None:
                o = observe(p, prog, inp, cfg)
                memo[k] = o
                cnt["executions"] = cnt.get("executions", 0) + 1
            obs.append(o)
        base = obs[0]
        oc[base[0][0]] = oc.get(base[0][0], 0) + 1
        if base[0][0] == "RESOURCE":
            continue
        for (cfg, text, p), o in zip(compiled[1:], obs[1:]):
            cnt["traces_validated"] = cnt.get("traces_validated", 0) + 1
            why = None
            if o[0][0] == "RESOURCE":
                why = "one configuration exhausts the fuel, the pivot does not"
            elif o[0] != base[0]:
                why = "behaviour differs from the pivot configuration"
            elif o[1] != base[1]:
                why = "final user-numbered scratch slots differ"
            if why:
                feats = optimizer_diff_features(_unopt_text(prog, cfg), text) if _optimises(cfg) else {}
                out["violations"].append({
                    "driver": driver, "size": size, "title": "%s: %s (%r vs pivot %r)" % (driver, why, cfg, pivot[0]),
                    "recipe": prog, "cfg": cfg.to_json(), "pivot": pivot[0].to_json(), "input": inp,
                    "expected": base[0], "observed": o[0], "teal": text, "pivot_teal": pivot[1],
                    "features": dict(feats, kind="behaviour", why=why),
                })
        # stack discipline: pairs differing only in scratch_slots
        for (cfg, text, p), o in zip(compiled, obs):
            if not cfg.scratch_slots:
                continue
            for (cfg2, text2, p2), o2 in zip(compiled, obs):
                if cfg2.scratch_slots is False and cfg2.version == cfg.version and cfg2.frame_pointers == cfg.frame_pointers:
                    if o[0][0] not in ("APPROVE", "REJECT") or o2[0][0] not in ("APPROVE", "REJECT"):
                        continue
                    cnt["stack_pairs"] = cnt.get("stack_pairs", 0) + 1
                    if o[2] != o2[2] or o[3] != o2[3]:
                        feats = optimizer_diff_features(text2, text)
                        out["violations"].append({
                            "driver": driver, "size": size,
                            "title": "%s: stack when leaving a routine differs with scratch_slots on (%r): %r vs %r" % (
                                driver, cfg, o[2] if o[2] != o2[2] else o[3], o2[2] if o[2] != o2[2] else o2[3]),
                            "recipe": prog, "cfg": cfg.to_json(), "pivot": cfg2.to_json(), "input": inp, "teal": text,
                            "pivot_teal": text2, "features": dict(feats, kind="stack"),
                        })


def check_native(native, cfgs, inputs, out, size):
    """hand-written ABI-subroutine programs of gen_abisub (recursive ABIReturnSubroutines, by-reference ABI
    parameters ...): every configuration at which they compile must behave like the pivot configuration"""
    cnt, oc = out["counters"], out["outcomes"]
    compiled = []
    for cfg in cfgs:
        if cfg.version < 4:
            continue
        st, text = gen_abisub.compile_native(native, cfg)
        cnt["configs"] = cnt.get("configs", 0) + 1
        if st != "ok":
            cnt["compile_" + st] = cnt.get("compile_" + st, 0) + 1
            continue
        compiled.append((cfg, text, asm.assemble(text)))
    if len(compiled) < 2:
        return
    memo = {}
    for ii, inp in enumerate(inputs):
        obs = []
        for cfg, text, p in compiled:
            k = (p.stream(), ii)
            o = memo.get(k)
            if o is None:
                res = interp.run(p, drive.ctx_for(inp, cfg), fuel=drive.AVM_FUEL)
                o = drive.observed_outcome(res, "log")
                memo[k] = o
                cnt["executions"] = cnt.get("executions", 0) + 1
            obs.append(o)
        base = obs[0]
        oc[base[0]] = oc.get(base[0], 0) + 1
        if base[0] == "RESOURCE":
            continue
        for (cfg, text, p), o in zip(compiled[1:], obs[1:]):
            cnt["traces_validated"] = cnt.get("traces_validated", 0) + 1
            if o[0] == "RESOURCE":
                continue
            if (o[0] == "FAIL" and base[0] == "FAIL"):
                continue
            if o != base:
                feats = {}
                if _optimises(cfg):
                    c2 = rb.Cfg(cfg.version, cfg.mode, scratch_slots=False, frame_pointers=cfg.frame_pointers)
                    st2, t2 = gen_abisub.compile_native(native, c2)
                    feats = optimizer_diff_features(t2 if st2 == "ok" else "", text)
                out["violations"].append({
                    "driver": "abi-subs", "size": size,
                    "title": "abi-subs: behaviour differs from the pivot configuration (%r vs pivot %r)" % (cfg, compiled[0][0]),
                    "native": native, "cfg": cfg.to_json(), "pivot": compiled[0][0].to_json(), "input": inp,
                    "expected": base, "observed": o, "teal": text, "pivot_teal": compiled[0][1],
                    "features": dict(feats, kind="behaviour", why="behaviour differs from the pivot configuration")})


def _optimises(cfg):
    """slot optimisation in effect: requested, or the version default (9+)"""
    return cfg.scratch_slots is True or (cfg.scratch_slots is None and cfg.version >= 9)


def _unopt_text(prog, cfg, tick=None):
    c2 = rb.Cfg(cfg.version, cfg.mode, scratch_slots=False, frame_pointers=cfg.frame_pointers)
    st, text = drive.compile_recipe(prog, c2, tick or TICK)
    return text if st == "ok" else ""


def _worker(items, base):
    out = {"counters": {}, "outcomes": {}, "violations": [], "samples": []}
    for size, prog, inputs, driver in items:
        if driver == "abi-subs":
            check_native(prog["native"], _CFGS, inputs, out, size)
        else:
            check_program(prog, _CFGS, inputs, out, size, driver)
        out["counters"]["states"] = out["counters"].get("states", 0) + 1
        out["counters"]["transitions"] = out["counters"].get("transitions", 0) + max(1, size)
    if items and base % 1499 == 0:
        out["samples"].append({"driver": items[0][3], "recipe": items[0][1]})
    return out


def _same_behaviour(t1, t2, cfg):
    """do two program texts behave alike on the basic inputs?"""
    p1, p2 = asm.assemble(t1), asm.assemble(t2)
    for inp in drive.make_inputs_basic():
        o1 = drive.observed_outcome(interp.run(p1, drive.ctx_for(inp, cfg), fuel=drive.AVM_FUEL), TICK)
        o2 = drive.observed_outcome(interp.run(p2, drive.ctx_for(inp, cfg), fuel=drive.AVM_FUEL), TICK)
        if o1 != o2 and "RESOURCE" not in (o1[0], o2[0]):
            return False
    return True


def shared_options_driver(rep, mode="text"):
    """One OptimizeOptions OBJECT used for several compilations (as Router.compile_program does for the approval
    and the clear-state program): what the second program compiles to must not depend on the first.
    mode 'text': any difference of the emitted text (C03, C11-style); 'behaviour': only a difference in what the
    programs do on the basic inputs (C01, C02); 'accept': only a rejection of a program that is accepted with a
    fresh options object (C20)"""
    import pyteal as pt
    progs = {
        "reserved": {"mode": "A", "vars": {"r": ["u", 7]}, "subs": {},
                     "main": ["Seq", ["Store", "r", ["Int", 42]], ["GPut", ["Itob", ["Load", "r"]], ["Int", 1]], ["Int", 1]]},
        "byref": gen_sub.f3(1, "none", 0),
        "byref2": gen_sub.f3(2, "u", 1),
        "plain": {"mode": "A", "vars": {"a": "u", "b": "u"}, "subs": {},
                  "main": ["Seq", ["Store", "a", ["Int", 1]], ["GPut", ["Itob", ["Load", "a"]], ["Int", 1]], ["Store", "b", ["Int", 2]],
                           ["GPut", ["Itob", ["Load", "b"]], ["Int", 2]], ["Int", 1]]},
        "shared_slot": gen_sub.f4("in_loop", "u", 1),
        # v := 7; v + <v read through a DynamicScratchVar>: the adjacent store/load of v must survive
        "dyn": {"mode": "A", "vars": {"v": "u", "w": "u"}, "subs": {},
                "main": ["Seq", ["Store", "v", ["Int", 7]], ["Store", "w", ["Add", ["Load", "v"], ["DynLoad", "v"]]],
                         ["GPut", ["Bytes", "72"], ["Load", "w"]], ["Int", 1]]},
    }
    names = sorted(progs)
    # the first program is compiled at version va, the second at vb (also DESCENDING across the frame-pointer and
    # default-optimisation boundaries), under option objects that leave 0, 1 or 2 settings to their defaults
    kws = [{"scratch_slots": True}, {}, {"scratch_slots": True, "frame_pointers": False}, {"frame_pointers": True}]
    for va in (6, 8, 10):
        for vb in (6, 8, 10):
            for ki, kw in enumerate(kws):
                if kw.get("frame_pointers") is True and min(va, vb) < 8:
                    continue
                for a in names:
                    for b in names:
                        ca, cb = rb.Cfg(va, "A"), rb.Cfg(vb, "A")
                        try:
                            t_fresh = pt.compileTeal(rb.build(progs[b], cb, TICK), pt.Mode.Application, version=vb,
                                                     optimize=pt.OptimizeOptions(**kw))
                        except drive.PT_ERRORS:
                            rep.add("shared_options_pterr")
                            continue
                        shared = pt.OptimizeOptions(**kw)
                        try:
                            pt.compileTeal(rb.build(progs[a], ca, TICK), pt.Mode.Application, version=va, optimize=shared)
                        except drive.PT_ERRORS:
                            pass
                        try:
                            t_shared = pt.compileTeal(rb.build(progs[b], cb, TICK), pt.Mode.Application, version=vb, optimize=shared)
                        except drive.PT_ERRORS as e:
                            t_shared = "REJECTED: %s" % (str(e)[:200],)
                        rep.add("traces_validated")
                        rep.add("shared_options_pairs")
                        if t_shared != t_fresh and mode == "accept" and not t_shared.startswith("REJECTED"):
                            continue
                        if t_shared != t_fresh and mode == "behaviour" and not t_shared.startswith("REJECTED") and \
                                _same_behaviour(t_shared, t_fresh, cb):
                            continue
                        if t_shared != t_fresh:
                            rep.violations.append({
                                "driver": "shared-options", "size": 2,
                                "title": "program %r (v%d) compiled with an OptimizeOptions object %r previously used for %r (v%d) differs from the same program compiled with a fresh, equal options object%s" % (
                                    b, vb, kw, a, va, ": " + t_shared[:120] if t_shared.startswith("REJECTED") else ""),
                                "first": a, "second": b, "version": vb, "first_version": va, "kw": ki, "fp": kw.get("frame_pointers"),
                                "teal": t_shared, "pivot_teal": t_fresh,
                                "features": dict(optimizer_diff_features(t_fresh, t_shared), kind="shared-options")})


def run(tier):
    global _CFGS
    rep = common.Report(PID, tier)
    rep.rule = ("all recipes (control flow <= bound, call graphs, every store/load sequence <= k over the optimiser "
                "alphabet) x all option settings/versions at which they compile; n-1 comparisons with the pivot "
                "configuration on every input, plus stack snapshots for pairs differing only in scratch_slots")
    _CFGS = configs(tier)
    rep.bounds["configs"] = [repr(c) for c in _CFGS]
    basic = drive.make_inputs_basic()
    items = []
    n_full = 3 if tier == "quick" else 4
    g = gen_ctrl.Grammar()
    for n, b in g.programs(n_full):
        if tier == "quick" and n == 3 and gen_ctrl.has_unreachable(b):
            continue
        items.append((n, gen_ctrl.make_program(b, "implicit"), basic, "ctrl"))
    lg = gen_ctrl.Grammar(gen_ctrl.LOOP_ATOMS, gen_ctrl.LOOP_COMPOUNDS, gen_ctrl.LOOP_CONDS)
    for n, b in lg.programs(4 if tier == "quick" else 5):
        if n > n_full and not gen_ctrl.has_unreachable(b):
            items.append((n, gen_ctrl.make_program(b, "implicit"), basic, "ctrl-loop"))
    for s, p, i in gen_sub.programs(tier):
        items.append((s, p, i, "subs"))
    for s, nat, i in gen_abisub.programs(tier):
        items.append((s, {"native": nat}, i, "abi-subs"))
    k = 3 if tier == "quick" else 4
    for n, p, placement in gen_opt.programs(k):
        items.append((n, p, basic[1:], "opt-" + placement))
    rep.bounds["recipes"] = len(items)
    rep.bounds["optimiser_sequence_max_len"] = k
    rep.bounds["ctrl_max_nodes"] = n_full
    for sh in common.pmap_shards(_worker, items, order_seed=rep.seed):
        rep.merge(sh)
    shared_options_driver(rep)
    router_options_driver(rep, tier)
    rep.counters["distinct_nontrivial"] = rep.counters.get("states", 0)
    rep.assumptions = ["reference AVM interpreter"]
    if not rep.counters.get("stack_pairs"):
        raise common.MachineryError("vacuous: no optimised/unoptimised pair compared")
    return rep.finish()


def router_options_driver(rep, tier):
    """Router-built programs (the argument-decoding glue differs between the calling conventions): the method
    signatures of C09 that mix transaction, reference and 13-17 plain parameters, compiled at versions 8 and 10
    under every frame_pointers / scratch_slots setting and called with the same ARC-4 group - one outcome."""
    import pyteal as pt
    from . import c09
    cases = [c for c in c09.cases(tier) if len(c["params"]) >= 13 or any(c09.is_txn(k) for k in c["params"])]
    cases = cases if tier == "thorough" else cases[::3]
    rep.bounds["router_option_cases"] = len(cases)
    settings = [dict(frame_pointers=fp, scratch_slots=ss) for fp in (False, True) for ss in (False, True)]
    for case in cases:
        params, ret = case["params"], case.get("ret")
        sig = c09.method_sig("meth", params, ret)
        try:
            group, gi, _expect = c09.build_group(sig, params, 0)
        except Exception:
            continue
        for ver in (8, 10):
            outs = []
            for kw in settings:
                try:
                    router = pt.Router("r", pt.BareCallActions(no_op=pt.OnCompleteAction.create_only(pt.Approve())),
                                       clear_state=pt.Approve())
                    router.add_method_handler(c09.build_method("meth", params, ret))
                    approval, _clear, _c = router.compile_program(version=ver, optimize=pt.OptimizeOptions(**kw))
                except drive.PT_ERRORS as e:
                    outs.append(("PTERR", type(e).__name__))
                    continue
                res = interp.run(asm.assemble(approval), interp.Ctx(mode="A", group=group, group_index=gi), fuel=100000)
                outs.append((res.verdict, tuple(res.logs) if res.verdict == "APPROVE" else None))
                rep.add("traces_validated")
            if len(set(outs)) > 1:
                k = [i for i, o in enumerate(outs) if o != outs[0]][0]
                rep.violations.append({
                    "driver": "router-options", "size": len(params),
                    "title": "router method %s (v%d): %r gives %s, %r gives %s" % (
                        sig[:80], ver, settings[0], str(outs[0])[:80], settings[k], str(outs[k])[:80]),
                    "case": case, "version": ver, "features": {"kind": "router-options"}})


def replay_shared(case, mode="text", pid=PID):
    return replay(dict(case, driver="shared-options"), mode, pid)


def replay(case, mode="text", pid=PID):
    if case.get("driver") == "router-options":
        rep = common.Report(pid, "thorough")
        router_options_driver(rep, "thorough")
        hits = [v for v in rep.violations if v["case"] == case["case"] and v["version"] == case["version"]]
        for v in hits:
            print("still violates:", v["title"])
        return bool(hits)
    if case.get("driver") == "shared-options":
        rep = common.Report(pid, "quick")
        shared_options_driver(rep, mode)
        hits = [v for v in rep.violations if (v["first"], v["second"], v["version"], v.get("first_version"), v.get("kw")) ==
                (case["first"], case["second"], case["version"], case.get("first_version"), case.get("kw"))]
        for v in hits:
            print("still violates:", v["title"])
        return bool(hits)
    cfg = rb.Cfg.from_json(case["cfg"])
    piv = rb.Cfg.from_json(case["pivot"])
    out = {"counters": {}, "outcomes": {}, "violations": [], "samples": []}
    if case.get("native") is not None:
        check_native(case["native"], [piv, cfg], [case["input"]], out, 0)
    else:
        check_program(case["recipe"], [piv, cfg], [case["input"]], out, 0, "replay")
    for v in out["violations"]:
        print("still violates:", v["title"])
    return bool(out["violations"])
