"""C06 - ABI values assembled in PyTeal encode exactly per ARC-4.

All type shapes up to the bound (base, arrays, tuples, named tuples, the bool-run family
bool^k with prefixes/suffixes, depth-2 composites) x boundary-value combinations x
{Python literals, run-time expressions} x {main routine (scratch), subroutine (frame
variables at v8+)} x versions.  Oracle: algosdk's ARC-4 codec applied to an independently
written signature string.
"""
import pyteal as pt

from .. import common, drive, abi_gen
from ..avm import asm, interp
from ..recipe import build as rb

PID = "C06"
_VERSIONS = (6, 8)
_PADS = (126, 127)


def descriptor_issues(shape):
    sp = abi_gen.spec(shape)
    ref = abi_gen.sdk_type(shape)
    out = []
    try:
        mine = abi_gen.sdkabi.ABIType.from_string(str(sp))
    except Exception as e:
        return ["str(type_spec) = %r is not a valid ARC-4 type string: %s" % (str(sp), e)]
    if mine != ref:
        out.append("str(type_spec) = %r denotes a different type than %r" % (str(sp), abi_gen.sig(shape)))
    if sp.is_dynamic() != ref.is_dynamic():
        out.append("is_dynamic() = %r, reference says %r" % (sp.is_dynamic(), ref.is_dynamic()))
    if not ref.is_dynamic():
        try:
            bl = sp.byte_length_static()
            if bl != ref.byte_len():
                out.append("byte_length_static() = %d, reference says %d" % (bl, ref.byte_len()))
        except Exception as e:
            out.append("byte_length_static() raised %r for a static type" % (e,))
    return out


def run_case(shape, v, mode, backend, version, out, expect="ok"):
    cnt, oc = out["counters"], out["outcomes"]
    cfg = rb.Cfg(version, "A")
    key = "%s/%s" % (mode, backend)
    try:
        text = rb.compile_cfg(abi_gen.encode_program(shape, v, mode, backend), cfg)
    except drive.PT_ERRORS as e:
        oc[key + ":pterr"] = oc.get(key + ":pterr", 0) + 1
        if expect == "ok":
            return "rejected: %s: %s" % (type(e).__name__, str(e)[:100]), None
        return None, None
    except Exception as e:
        oc[key + ":crash"] = oc.get(key + ":crash", 0) + 1
        return "build/compile crashed: %r" % (e,), None
    if expect == "build_error":
        return "out-of-range Python value accepted at build time", text
    p = asm.assemble(text)
    res = interp.run(p, interp.Ctx(mode="A", group=[interp.default_txn()]), fuel=200000)
    cnt["traces_validated"] = cnt.get("traces_validated", 0) + 1
    oc[key + ":" + res.verdict] = oc.get(key + ":" + res.verdict, 0) + 1
    if expect == "run_fail":
        if res.verdict != "FAIL":
            return "out-of-range run-time value did not fail: %s logs=%r" % (res.verdict, res.logs), text
        return None, text
    if res.verdict == "RESOURCE":
        # the observation channel (log: 1024 bytes) is too small for this value: not comparable
        cnt["not_comparable_resource"] = cnt.get("not_comparable_resource", 0) + 1
        return None, text
    if res.verdict != "APPROVE":
        return "program does not approve: %s %s (line %s)" % (res.verdict, res.why, res.line), text
    want = abi_gen.encode(shape, v)
    if len(res.logs) != 1 or res.logs[0] != want:
        return "encodes to %s, reference %s" % (res.logs[0].hex() if res.logs else None, want.hex()), text
    return None, text


def cross_uint_case(tgt, src, v, backend, version, out):
    cnt, oc = out["counters"], out["outcomes"]

    def body():
        s = abi_gen.spec(src).new_instance()
        t = abi_gen.spec(tgt).new_instance()
        return pt.Seq(s.set(v), t.set(s), pt.Log(t.encode()))
    try:
        if backend == "main":
            expr = pt.Seq(body(), pt.Int(1))
        else:
            def cross_in_sub():
                return body()
            expr = pt.Seq(pt.Subroutine(pt.TealType.none)(cross_in_sub)(), pt.Int(1))
        text = rb.compile_cfg(expr, rb.Cfg(version, "A"))
    except drive.PT_ERRORS:
        oc["cross:refused"] = oc.get("cross:refused", 0) + 1
        return None, None
    except Exception as e:
        return "build/compile crashed: %r" % (e,), None
    res = interp.run(asm.assemble(text), interp.Ctx(mode="A", group=[interp.default_txn()]), fuel=20000)
    cnt["traces_validated"] = cnt.get("traces_validated", 0) + 1
    oc["cross:" + res.verdict] = oc.get("cross:" + res.verdict, 0) + 1
    fits = v < (1 << abi_gen.BITS[tgt])
    if res.verdict == "APPROVE":
        if not fits:
            return "a value that does not fit the target width was approved, logs %r" % ([l.hex() for l in res.logs],), text
        want = abi_gen.encode(tgt, v)
        if res.logs != [want]:
            return "encodes to %r, reference %s" % ([l.hex() for l in res.logs], want.hex()), text
    return None, text


def _annotatable(shape):
    """tuples of more than five members have no annotation form (no way to declare them as an output)"""
    try:
        abi_gen.spec(shape).annotation_type()
        return True
    except TypeError:
        return False


def _worker(items, base):
    out = {"counters": {}, "outcomes": {}, "violations": [], "samples": []}
    cnt = out["counters"]
    for shape in items:
        for why in descriptor_issues(shape):
            out["violations"].append({"driver": "descriptor", "size": abi_gen.depth(shape), "title": "%s: %s" % (abi_gen.sig(shape), why),
                                      "shape": shape, "features": {"why": "descriptor"}})
        # values whose encoding does not fit an AVM byte string (4096) cannot be observed: outside the alphabet
        vals = [v for v in abi_gen.values(shape, cap=_CAP, rich=_RICH) if len(abi_gen.encode(shape, v)) <= 4000]
        for v in vals:
            for mode in (("lit", "expr", "lit-sub") if isinstance(shape, str) else ("lit", "expr", "lit-shared", "lit-sub")):
                for backend in ("main", "sub"):
                    for ver in _VERSIONS:
                        why, text = run_case(shape, v, mode, backend, ver, out)
                        if why:
                            out["violations"].append({
                                "driver": "encode", "size": abi_gen.depth(shape),
                                "title": "%s value %r (%s, %s, v%d): %s" % (abi_gen.sig(shape), v, mode, backend, ver, why),
                                "shape": shape, "value": v, "mode": mode, "backend": backend, "version": ver, "teal": text,
                                "features": {"why": why.split(":")[0][:30], "mode": mode, "backend": backend}})
        # the value as the output of an ABI-returning subroutine whose frame is (nearly) full
        if not isinstance(shape, str) and vals and _annotatable(shape):
            for v in (vals[0], vals[-1]) if len(vals) > 1 else (vals[0],):
                for pad in _PADS:
                    for ver in _VERSIONS:
                        backend = "crowded%d" % pad
                        why, text = run_case(shape, v, "lit", backend, ver, out)
                        if why:
                            out["violations"].append({
                                "driver": "encode", "size": abi_gen.depth(shape),
                                "title": "%s value %r (lit, %s, v%d): %s" % (abi_gen.sig(shape), v, backend, ver, why),
                                "shape": shape, "value": v, "mode": "lit", "backend": backend, "version": ver, "teal": None,
                                "features": {"why": why.split(":")[0][:30], "mode": "lit", "backend": "crowded"}})
        # range checks on narrow integers
        if isinstance(shape, str) and shape in abi_gen.BITS and abi_gen.BITS[shape] < 64:
            over = 1 << abi_gen.BITS[shape]
            for backend in ("main", "sub"):
                for ver in _VERSIONS:
                    for mode, expect in (("lit", "build_error"), ("expr", "run_fail")):
                        why, text = run_case(shape, over, mode, backend, ver, out, expect=expect)
                        if why:
                            out["violations"].append({
                                "driver": "range", "size": 0, "title": "%s value %d (%s, %s, v%d): %s" % (shape, over, mode, backend, ver, why),
                                "shape": shape, "value": over, "mode": mode, "backend": backend, "version": ver, "expect": expect,
                                "teal": text, "features": {"why": "range", "mode": mode}})
        # fixed-width byte values (byte[N] as abi.StaticBytes, address) given with another width: a literal must be
        # refused when the value is set, an expression must make the program fail
        if abi_gen.is_bytes_shape(shape) and shape != "dbytes" or shape == "address":
            n = 32 if shape == "address" else int(shape[6:])
            for wrong in sorted(set([0, n - 1, n + 1, 2 * n]) - {n, -1}):
                for backend in ("main", "sub"):
                    for ver in _VERSIONS:
                        for mode, expect in (("lit", "build_error"), ("expr", "run_fail")):
                            why, text = run_case(shape, bytes(range(wrong)), mode, backend, ver, out, expect=expect)
                            if why:
                                out["violations"].append({
                                    "driver": "width", "size": 0,
                                    "title": "%s given %d bytes (%s, %s, v%d): %s" % (abi_gen.sig(shape), wrong, mode, backend, ver, why),
                                    "shape": shape, "value": wrong, "mode": mode, "backend": backend, "version": ver,
                                    "expect": expect, "teal": text, "features": {"why": "width", "mode": mode}})
        # a uint assembled from ANOTHER ABI uint of every width: either refused when built, or - if the program
        # approves - exactly the reference encoding; a value that does not fit must never be approved
        if isinstance(shape, str) and shape in abi_gen.BITS:
            tb = abi_gen.BITS[shape]
            for src in abi_gen.BITS:
                sb = abi_gen.BITS[src]
                for v in sorted(set([0, 1, (1 << tb) - 1, min(1 << tb, (1 << sb) - 1), (1 << sb) - 1])):
                    for backend in ("main", "sub"):
                        for ver in _VERSIONS:
                            why, text = cross_uint_case(shape, src, v, backend, ver, out)
                            if why:
                                out["violations"].append({
                                    "driver": "cross-uint", "size": 0,
                                    "title": "%s.set(<%s holding %d>) (%s, v%d): %s" % (shape, src, v, backend, ver, why),
                                    "shape": shape, "src": src, "value": v, "backend": backend, "version": ver, "teal": text,
                                    "features": {"why": "cross-width set", "fits": v < (1 << tb)}})
        cnt["states"] = cnt.get("states", 0) + 1
        cnt["transitions"] = cnt.get("transitions", 0) + len(vals)
    if items and base % 53 == 0:
        out["samples"].append({"shape": items[0], "signature": abi_gen.sig(items[0]), "values": abi_gen.values(items[0], 2)})
    return out


def _leaves(shape):
    if isinstance(shape, str):
        return 1
    if shape[0] == "sarr":
        return shape[2] * _leaves(shape[1])
    if shape[0] == "darr":
        return 3 * _leaves(shape[1])
    return sum(_leaves(s) for s in shape[1:])


_CAP = 6
_RICH = False


def run(tier):
    global _VERSIONS, _CAP, _RICH
    rep = common.Report(PID, tier)
    rep.rule = ("every type shape of the universe (a state) x boundary-value combinations (capped per shape at the stated "
                "cap) x literal/run-time construction x main/subroutine storage x versions; transitions = values explored")
    _VERSIONS = (6, 8) if tier == "quick" else (5, 6, 7, 8, 10)
    global _PADS
    _PADS = (126, 127) if tier == "quick" else (0, 1, 120, 124, 125, 126, 127, 128, 129)
    _CAP = 5 if tier == "quick" else 10
    _RICH = tier != "quick"
    # shapes with more than 150 leaves cannot be assembled from parts within 256 scratch slots (they are in the
    # universe for C07's decoding side only)
    items = [s for s in abi_gen.shapes(tier) if _leaves(s) <= 150]
    rep.bounds["shapes"] = len(items)
    rep.bounds["values_cap_per_shape"] = _CAP
    rep.bounds["versions"] = list(_VERSIONS)
    rep.cap("value combinations per shape capped at %d (boundary combinations first)" % _CAP)
    for sh in common.pmap_shards(_worker, items, shard_size=2, order_seed=rep.seed):
        rep.merge(sh)
    rep.counters["distinct_nontrivial"] = rep.counters.get("traces_validated", 0)
    rep.assumptions = ["algosdk.abi is the ARC-4 reference codec", "reference AVM"]
    if not rep.counters.get("traces_validated"):
        raise common.MachineryError("vacuous")
    return rep.finish()


def replay(case):
    out = {"counters": {}, "outcomes": {}, "violations": [], "samples": []}
    if "value" not in case:
        iss = descriptor_issues(case["shape"])
        print(iss)
        return bool(iss)
    value = bytes(range(case["value"])) if case.get("driver") == "width" else case["value"]
    why, _t = run_case(case["shape"], value, case["mode"], case["backend"], case["version"], out,
                       expect=case.get("expect", "ok"))
    print("result:", why)
    return bool(why)
