"""C07 - ABI decoding and element access return the encoded components.

Same shapes and values as C06.  For every shape every element position (tuple index,
named field, array index with constant and run-time index, out-of-range probes), get()
on scalars/strings and length() is compiled once; the program decodes the reference
encoding (algosdk) passed as an application argument and logs the extracted component,
which must equal the component's own reference encoding; out-of-range indices must fail.
"""
import pyteal as pt

from .. import common, drive, abi_gen
from ..avm import asm, interp
from ..recipe import build as rb

PID = "C07"
_VERSIONS = (6, 8)
_CAP = 5
_RICH = False


def elem_shape(shape, i):
    if shape[0] in ("sarr", "darr"):
        return shape[1]
    return shape[1 + i]


def probe_program(shape, probe, backend):
    """probe: ("get",) | ("length",) | ("elem", i|None, "const"|"rt"|"field")"""
    def body():
        how_ = probe[2] if probe[0] == "elem" else ""
        if how_ == "field_decoy_before":
            abi_gen.decoy_instance(shape)
        sp = abi_gen.spec(shape)
        inst = sp.new_instance()
        if how_ == "field_decoy_after":
            # another user type with the same field names at other positions comes to life in between
            abi_gen.decoy_instance(shape)
        steps = [inst.decode(pt.Txn.application_args[0])]
        if probe[0] == "get":
            g = inst.get()
            steps.append(pt.Log(pt.Itob(g) if g.type_of() == pt.TealType.uint64 else g))
        elif probe[0] == "length":
            steps.append(pt.Log(pt.Itob(inst.length())))
        elif probe[0] == "reuse":
            # ONE element accessor object (index read from a variable) used twice, the second use nested in the
            # first one's callback after the variable moved: two different elements must come out
            i_ = pt.ScratchVar(pt.TealType.uint64)
            cursor = inst[i_.load()]
            steps.append(i_.store(pt.Int(0)))
            steps.append(cursor.use(lambda first: pt.Seq(
                i_.store(pt.Btoi(pt.Txn.application_args[1])),
                cursor.use(lambda last: pt.Log(pt.Concat(first.encode(), last.encode()))))))
        else:
            _k, i, how = probe
            es = elem_shape(shape, i if i is not None else 0)
            if how.endswith("_sub"):
                # the value receiving the component is an instance of a user subclass of the ABI class
                elem = abi_gen.sub_instance(es)
            else:
                elem = abi_gen.spec(es).new_instance()
            if how.startswith("field"):
                comp = getattr(inst, "f%d" % i)
            elif how.startswith("rt"):
                comp = inst[pt.Btoi(pt.Txn.application_args[1])]
            else:
                comp = inst[i]
            steps.append(comp.store_into(elem))
            steps.append(pt.Log(elem.encode()))
        return pt.Seq(*steps)
    if backend == "main":
        return pt.Seq(body(), pt.Int(1))

    def decode_in_subroutine():
        return body()
    sub = pt.Subroutine(pt.TealType.none)(decode_in_subroutine)
    return pt.Seq(sub(), pt.Int(1))


def expected_get(shape, v):
    if shape == "bool":
        return (1 if v else 0).to_bytes(8, "big")
    if shape in abi_gen.BITS:
        return v.to_bytes(8, "big")
    return bytes(v)


def probes_for(shape):
    out = []
    if isinstance(shape, str):
        return [("get",)]
    k = shape[0]
    if k in ("tuple", "ntuple"):
        for i in range(len(shape) - 1):
            out.append(("elem", i, "const"))
            if isinstance(shape[1 + i], str) and not abi_gen.is_bytes_shape(shape[1 + i]):
                out.append(("elem", i, "const_sub"))
            if k == "ntuple":
                out.append(("elem", i, "field"))
                if len(shape) > 2:
                    out.append(("elem", i, "field_decoy_before"))
                    out.append(("elem", i, "field_decoy_after"))
        return out
    out.append(("length",))
    out.append(("reuse",))
    out.append(("elem", None, "rt"))
    if isinstance(shape[1], str) and not abi_gen.is_bytes_shape(shape[1]):
        out.append(("elem", None, "rt_sub"))
        out.append(("elem", 1 if (k == "darr" or shape[2] > 1) else 0, "const_sub"))
    n = shape[2] if k == "sarr" else 3
    for i in range(min(n, 4) + (1 if k == "sarr" else 0)):
        out.append(("elem", i, "const"))
    if k == "sarr" and n > 4:
        out.append(("elem", n - 1, "const"))
        out.append(("elem", n, "const"))
    return out


def compile_probe(shape, probe, backend, version):
    cfg = rb.Cfg(version, "A")
    try:
        return "ok", asm.assemble(rb.compile_cfg(probe_program(shape, probe, backend), cfg))
    except drive.PT_ERRORS as e:
        return "pterr", e
    except Exception as e:
        return "crash", e


def run_probe(p, enc, idx=None):
    args = [enc] + ([idx.to_bytes(8, "big")] if idx is not None else [])
    return interp.run(p, interp.Ctx(mode="A", group=[interp.default_txn(ApplicationArgs=args)]), fuel=100000)


def check_shape(shape, out):
    cnt, oc = out["counters"], out["outcomes"]
    # values whose encoding does not fit an AVM byte string (4096) cannot be passed in: outside the alphabet
    vals = [v for v in abi_gen.values(shape, cap=_CAP, rich=_RICH) if len(abi_gen.encode(shape, v)) <= 4000]
    encs = [abi_gen.encode(shape, v) for v in vals]

    def viol(why, probe, backend, ver, v=None, idx=None, feats=None):
        out["violations"].append({
            "driver": "decode", "size": abi_gen.depth(shape),
            "title": "%s probe %r (%s, v%d) value %r index %r: %s" % (abi_gen.sig(shape), probe, backend, ver, v, idx, why),
            "shape": shape, "probe": list(probe), "backend": backend, "version": ver, "value": v, "index": idx,
            "features": dict(feats or {}, why=why.split(":")[0][:40])})
    for probe in probes_for(shape):
        for backend in ("main", "sub"):
            for ver in _VERSIONS:
                st, p = compile_probe(shape, probe, backend, ver)
                static_oor = (probe[0] == "elem" and probe[2] == "const" and shape[0] == "sarr" and probe[1] >= shape[2])
                oc["%s:%s" % (probe[0], st)] = oc.get("%s:%s" % (probe[0], st), 0) + 1
                if st == "crash":
                    viol("build/compile crashed: %r" % (p,), probe, backend, ver)
                    continue
                if static_oor:
                    if st == "ok":
                        viol("constant index beyond a static array accepted at build time", probe, backend, ver,
                             feats={"oor": True, "const": True})
                    continue
                if st == "pterr":
                    viol("rejected: %s" % (str(p)[:100],), probe, backend, ver)
                    continue
                for v, enc in zip(vals, encs):
                    if probe[0] == "get":
                        res = run_probe(p, enc)
                        cnt["traces_validated"] = cnt.get("traces_validated", 0) + 1
                        want = expected_get(shape, v)
                        if res.verdict != "APPROVE" or res.logs != [want]:
                            viol("get() gave %s %r, expected %s" % (res.verdict, [l.hex() for l in res.logs], want.hex()), probe, backend, ver, v)
                    elif probe[0] == "reuse":
                        if len(v) == 0:
                            continue
                        es0 = elem_shape(shape, 0)
                        want = abi_gen.encode(es0, v[0]) + abi_gen.encode(es0, v[len(v) - 1])
                        if len(want) > 1000:
                            continue
                        res = run_probe(p, enc, len(v) - 1)
                        cnt["traces_validated"] = cnt.get("traces_validated", 0) + 1
                        if res.verdict != "APPROVE" or res.logs != [want]:
                            viol("one accessor used twice (elements 0 and %d) gave %s %r, expected %s" % (
                                len(v) - 1, res.verdict, [l.hex() for l in res.logs], want.hex()), probe, backend, ver, v)
                    elif probe[0] == "length":
                        res = run_probe(p, enc)
                        cnt["traces_validated"] = cnt.get("traces_validated", 0) + 1
                        want = len(v).to_bytes(8, "big")
                        if res.verdict != "APPROVE" or res.logs != [want]:
                            viol("length() gave %s %r, expected %d" % (res.verdict, [l.hex() for l in res.logs], len(v)), probe, backend, ver, v)
                    else:
                        _k, i, how = probe
                        n = len(v)
                        rt = how.startswith("rt")
                        idxs = [i] if not rt else list(range(n)) + [n, n + 1] + [x for x in (7, 8, 15, 16) if x > n + 1]
                        for idx in idxs:
                            res = run_probe(p, enc, idx if rt else None)
                            cnt["traces_validated"] = cnt.get("traces_validated", 0) + 1
                            es = elem_shape(shape, idx if shape[0] in ("tuple", "ntuple") else 0)
                            if idx < n:
                                want = abi_gen.encode(es, v[idx])
                                if res.verdict == "RESOURCE" and len(want) > 1000:
                                    # the component does not fit the observation channel (log budget 1024 bytes)
                                    cnt["not_comparable_resource"] = cnt.get("not_comparable_resource", 0) + 1
                                    continue
                                if res.verdict != "APPROVE" or res.logs != [want]:
                                    viol("element %d gave %s %r, expected %s" % (idx, res.verdict, [l.hex() for l in res.logs], want.hex()),
                                         probe, backend, ver, v, idx)
                            else:
                                oc["oor:" + res.verdict] = oc.get("oor:" + res.verdict, 0) + 1
                                if res.verdict != "FAIL":
                                    es_dyn = abi_gen.sdk_type(es).is_dynamic()
                                    viol("index %d of an array of length %d returned data %r instead of failing" % (idx, n, [l.hex() for l in res.logs]),
                                         probe, backend, ver, v, idx,
                                         feats={"oor": True, "elem_is_bool": es == "bool", "elem_is_dynamic": es_dyn,
                                                "array_kind": shape[0]})
    cnt["states"] = cnt.get("states", 0) + 1
    cnt["transitions"] = cnt.get("transitions", 0) + len(probes_for(shape))


def _worker(items, base):
    out = {"counters": {}, "outcomes": {}, "violations": [], "samples": []}
    for shape in items:
        check_shape(shape, out)
    if items and base % 53 == 0:
        out["samples"].append({"shape": items[0], "probes": [list(p) for p in probes_for(items[0])][:4]})
    return out


def run(tier):
    global _VERSIONS, _CAP, _RICH
    rep = common.Report(PID, tier)
    rep.rule = ("every shape (state) x every element position / accessor (transition) x main/subroutine storage x versions, "
                "each compiled once and run on the reference encodings of all boundary values; array probes with "
                "run-time indices 0..len+1 and 7/8/15/16")
    _VERSIONS = (6, 8) if tier == "quick" else (5, 6, 7, 8, 10)
    _CAP = 5 if tier == "quick" else 10
    _RICH = tier != "quick"
    items = abi_gen.shapes(tier)
    rep.bounds["shapes"] = len(items)
    rep.bounds["values_cap_per_shape"] = _CAP
    rep.bounds["versions"] = list(_VERSIONS)
    rep.cap("value combinations per shape capped at %d" % _CAP)
    for sh in common.pmap_shards(_worker, items, shard_size=2, order_seed=rep.seed):
        rep.merge(sh)
    rep.counters["distinct_nontrivial"] = rep.counters.get("traces_validated", 0)
    rep.assumptions = ["algosdk.abi is the ARC-4 reference codec", "reference AVM"]
    if not rep.outcomes.get("oor:FAIL"):
        raise common.MachineryError("vacuous: no out-of-range probe failed")
    return rep.finish()


def replay(case):
    global _VERSIONS
    out = {"counters": {}, "outcomes": {}, "violations": [], "samples": []}
    _VERSIONS = (case["version"],)
    check_shape(case["shape"], out)
    hits = [v for v in out["violations"] if v["probe"] == case["probe"] and v["backend"] == case["backend"]]
    for v in hits[:5]:
        print("still violates:", v["title"][:300])
    return bool(hits)
