"""C19 - ABI assignability implies identical encoding.

Every ordered pair of a bounded universe of ABI type specs (nested to depth 2, named
tuples, static/dynamic bytes, reference and transaction types).  Oracle: an independent
normal form of the ARC-4 layout (byte == uint8, address == byte[32], string == byte[],
names erased); assignable(a, b) must imply equal normal forms, and reference encodings
of sample values must be identical under both types (algosdk codec).  The two admitting
call sites (subroutine argument, inner method call) must accept exactly the assignable pairs.
"""
import itertools

import pyteal as pt
from pyteal import abi
from pyteal.ast.abi.util import type_spec_is_assignable_to
from algosdk import abi as sdkabi

from .. import common, drive

PID = "C19"


def base_specs():
    return [abi.BoolTypeSpec(), abi.ByteTypeSpec(), abi.Uint8TypeSpec(), abi.Uint16TypeSpec(), abi.Uint32TypeSpec(),
            abi.Uint64TypeSpec(), abi.AddressTypeSpec(), abi.StringTypeSpec(), abi.DynamicBytesTypeSpec(),
            abi.StaticBytesTypeSpec(1), abi.StaticBytesTypeSpec(32)]


def atom_specs():
    out = [abi.AccountTypeSpec(), abi.AssetTypeSpec(), abi.ApplicationTypeSpec()]
    for n in ["TransactionTypeSpec", "PaymentTransactionTypeSpec", "KeyRegisterTransactionTypeSpec",
              "AssetConfigTransactionTypeSpec", "AssetFreezeTransactionTypeSpec", "AssetTransferTransactionTypeSpec",
              "ApplicationCallTransactionTypeSpec"]:
        out.append(getattr(abi, n)())
    return out


def named(fields):
    """build a NamedTuple type spec with the given (name, spec) fields"""
    ann = {}
    for nm, sp in fields:
        ann[nm] = abi.Field[sp.annotation_type()]
    cls = type("NT_" + "_".join(n for n, _ in fields), (abi.NamedTuple,), {"__annotations__": ann})
    return cls().type_spec()


def universe(tier):
    base = base_specs()
    d1 = []
    for b in base:
        for n in (1, 2, 32):
            d1.append(abi.StaticArrayTypeSpec(b, n))
        d1.append(abi.DynamicArrayTypeSpec(b))
    small = [abi.BoolTypeSpec(), abi.ByteTypeSpec(), abi.Uint8TypeSpec(), abi.Uint64TypeSpec(), abi.AddressTypeSpec(),
             abi.StringTypeSpec(), abi.DynamicBytesTypeSpec(), abi.StaticBytesTypeSpec(32)]
    tuples = [abi.TupleTypeSpec()]
    for a in small:
        tuples.append(abi.TupleTypeSpec(a))
    for a, b in itertools.product(small, repeat=2):
        tuples.append(abi.TupleTypeSpec(a, b))
    if tier == "thorough":
        for a, b, c in itertools.product(small[:5], repeat=3):
            tuples.append(abi.TupleTypeSpec(a, b, c))
    nts = []
    for a, b in itertools.product(small[:6], repeat=2):
        nts.append(named([("x", a), ("y", b)]))
    nts.append(named([("p", abi.Uint64TypeSpec()), ("q", abi.Uint64TypeSpec())]))
    nts.append(named([("x", abi.Uint64TypeSpec())]))
    d2 = []
    comp = [abi.StaticArrayTypeSpec(abi.ByteTypeSpec(), 2), abi.StaticArrayTypeSpec(abi.Uint8TypeSpec(), 2),
            abi.StaticBytesTypeSpec(2), abi.DynamicArrayTypeSpec(abi.ByteTypeSpec()), abi.DynamicBytesTypeSpec(),
            abi.StringTypeSpec(), abi.TupleTypeSpec(abi.Uint64TypeSpec(), abi.StringTypeSpec()),
            abi.TupleTypeSpec(abi.ByteTypeSpec()), abi.TupleTypeSpec(abi.Uint8TypeSpec()),
            named([("x", abi.Uint64TypeSpec()), ("y", abi.StringTypeSpec())]), abi.AddressTypeSpec(),
            abi.StaticArrayTypeSpec(abi.BoolTypeSpec(), 9)]
    for c in comp:
        d2.append(abi.StaticArrayTypeSpec(c, 2))
        d2.append(abi.DynamicArrayTypeSpec(c))
        d2.append(abi.TupleTypeSpec(c, abi.Uint64TypeSpec()))
        d2.append(abi.TupleTypeSpec(abi.BoolTypeSpec(), c))
    return base + atom_specs() + d1 + tuples + nts + d2


# ------------------------------------------------------------------ independent normal form
def norm(t):
    s = type(t).__name__
    if isinstance(t, abi.BoolTypeSpec):
        return ("bool",)
    if isinstance(t, abi.UintTypeSpec):
        return ("uint", t.bit_size())
    if s in ("AccountTypeSpec", "AssetTypeSpec", "ApplicationTypeSpec"):
        return ("ref", s)
    if s.endswith("TransactionTypeSpec"):
        return ("txn", s)
    if isinstance(t, abi.TupleTypeSpec):
        return ("tuple",) + tuple(norm(x) for x in t.value_type_specs())
    if isinstance(t, abi.StaticArrayTypeSpec):
        return ("sarr", norm(t.value_type_spec()), t.length_static())
    if isinstance(t, abi.DynamicArrayTypeSpec):
        return ("darr", norm(t.value_type_spec()))
    raise AssertionError("unclassified type spec %r" % (t,))


# ARC-4 types that a method signature may name but that PyTeal has no type for
EXOTIC = ["uint24", "uint40", "uint48", "uint56", "uint72", "uint128", "uint256", "uint512", "ufixed64x2", "ufixed8x1",
          "uint24[]", "uint24[2]", "(bool,uint24)", "(uint40,string)", "uint128[3]", "(uint56)", "uint48[][]"]


def norm_sdk(t):
    """the same normal form for a type of the reference codec (parsed from an ARC-4 type string)"""
    s = type(t).__name__
    if s == "BoolType":
        return ("bool",)
    if s == "ByteType":
        return ("uint", 8)
    if s == "UintType":
        return ("uint", t.bit_size)
    if s == "UfixedType":
        return ("ufixed", t.bit_size, t.precision)
    if s == "AddressType":
        return ("sarr", ("uint", 8), 32)
    if s == "StringType":
        return ("darr", ("uint", 8))
    if s == "ArrayStaticType":
        return ("sarr", norm_sdk(t.child_type), t.static_length)
    if s == "ArrayDynamicType":
        return ("darr", norm_sdk(t.child_type))
    if s == "TupleType":
        return ("tuple",) + tuple(norm_sdk(x) for x in t.child_types)
    raise AssertionError("unclassified reference type %r" % (t,))


def same_layout(a, b):
    na, nb = norm(a), norm(b)
    if na[0] == "txn" and nb[0] == "txn":
        return na == nb or nb[1] == "TransactionTypeSpec"
    return na == nb


def sample_values(n):
    """reference values for a normal form"""
    k = n[0]
    if k == "bool":
        return [False, True]
    if k == "uint":
        return [0, (1 << n[1]) - 1]
    if k == "tuple":
        if len(n) == 1:
            return [[]]
        cols = [sample_values(x) for x in n[1:]]
        return [[c[0] for c in cols], [c[-1] for c in cols]]
    if k == "sarr":
        vs = sample_values(n[1])
        return [[vs[0]] * n[2], [vs[-1]] * n[2]]
    if k == "darr":
        vs = sample_values(n[1])
        return [[], [vs[0], vs[-1]]]
    return []


def sdk_type(t):
    return sdkabi.ABIType.from_string(str(t))


def _conv(v, ty):
    """adapt a generic sample value to what algosdk's encoder for `ty` accepts"""
    if isinstance(ty, sdkabi.AddressType):
        return bytes(v)
    if isinstance(ty, sdkabi.StringType):
        return bytes(v).decode("latin-1") if all(x < 128 for x in v) else None
    if isinstance(ty, sdkabi.ByteType):
        return v
    if isinstance(ty, sdkabi.TupleType):
        return [_conv(x, c) for x, c in zip(v, ty.child_types)]
    if isinstance(ty, (sdkabi.ArrayStaticType, sdkabi.ArrayDynamicType)):
        return [_conv(x, ty.child_type) for x in v]
    return v


def _has_none(v):
    if v is None:
        return True
    if isinstance(v, list):
        return any(_has_none(x) for x in v)
    return False


def _worker(items, base):
    out = {"counters": {}, "outcomes": {}, "violations": [], "samples": []}
    cnt, oc = out["counters"], out["outcomes"]
    U = _UNIVERSE
    for i in items:
        a = U[i]
        for j, b in enumerate(U):
            cnt["traces_validated"] = cnt.get("traces_validated", 0) + 1
            try:
                asg = type_spec_is_assignable_to(a, b)
            except Exception as e:
                out["violations"].append({"driver": "relation", "size": 1, "title": "type_spec_is_assignable_to(%s, %s) raised %r" % (a, b, e),
                                          "a": str(a), "b": str(b), "ia": i, "ib": j, "features": {"why": "crash"}})
                continue
            lay = same_layout(a, b)
            oc["assignable" if asg else ("same_layout_not_assignable" if lay else "different")] = \
                oc.get("assignable" if asg else ("same_layout_not_assignable" if lay else "different"), 0) + 1
            if asg and not lay:
                out["violations"].append({"driver": "relation", "size": len(str(a)) + len(str(b)),
                                          "title": "%s is assignable to %s but their ARC-4 layouts differ: %r vs %r" % (a, b, norm(a), norm(b)),
                                          "a": str(a), "b": str(b), "ia": i, "ib": j, "features": {"why": "layout"}})
                continue
            if asg and norm(a)[0] not in ("ref", "txn"):
                try:
                    ta, tb = sdk_type(a), sdk_type(b)
                except Exception as e:
                    out["violations"].append({"driver": "relation", "size": 1, "title": "signature string of %s / %s not parseable by the reference codec: %s" % (a, b, e),
                                              "a": str(a), "b": str(b), "ia": i, "ib": j, "features": {"why": "str"}})
                    continue
                for v in sample_values(norm(a)):
                    va, vb = _conv(v, ta), _conv(v, tb)
                    if _has_none(va) or _has_none(vb):
                        continue
                    ea, eb = ta.encode(va), tb.encode(vb)
                    cnt["encodings_compared"] = cnt.get("encodings_compared", 0) + 1
                    if ea != eb:
                        out["violations"].append({"driver": "relation", "size": 1, "title": "%s -> %s: value %r encodes differently (%s vs %s)" % (a, b, v, ea.hex(), eb.hex()),
                                                  "a": str(a), "b": str(b), "ia": i, "ib": j, "features": {"why": "encoding"}})
                        break
            # admitting call sites (only for instantiable, non-transaction types of depth <= 1)
            if i < _SITE_LIMIT and j < _SITE_LIMIT and norm(a)[0] != "txn" and norm(b)[0] != "txn":
                acc = call_site_accepts(a, b)
                cnt["call_sites"] = cnt.get("call_sites", 0) + 1
                if acc is not None and acc != asg:
                    out["violations"].append({"driver": "callsite", "size": 1,
                                              "title": "subroutine parameter %s %s an argument of type %s although assignable=%s" % (
                                                  b, "accepts" if acc else "rejects", a, asg),
                                              "a": str(a), "b": str(b), "ia": i, "ib": j, "features": {"why": "callsite"}})
                accw = call_site_accepts(a, b, warm=True)
                cnt["call_sites"] = cnt.get("call_sites", 0) + 1
                if accw is not None and accw != asg:
                    out["violations"].append({"driver": "callsite", "size": 1,
                                              "title": "subroutine parameter %s, after a call with a %s value, %s an argument of type %s although assignable=%s" % (
                                                  b, b, "accepts" if accw else "rejects", a, asg),
                                              "a": str(a), "b": str(b), "ia": i, "ib": j, "features": {"why": "callsite-warm"}})
                if norm(a)[0] != "ref" and norm(b)[0] != "ref":
                    acc2 = method_call_accepts(a, b)
                    cnt["call_sites"] = cnt.get("call_sites", 0) + 1
                    if acc2 is not None and acc2 != asg:
                        out["violations"].append({"driver": "callsite", "size": 1,
                                                  "title": "InnerTxnBuilder.MethodCall with parameter type %s %s an argument of type %s although assignable=%s" % (
                                                      b, "accepts" if acc2 else "rejects", a, asg),
                                                  "a": str(a), "b": str(b), "ia": i, "ib": j, "features": {"why": "callsite-itxn"}})
            # assignment sites: B().set(<value of type A>) - if PyTeal builds it, the layouts must agree
            # (a 1-tuple assembled from its single component is construction from parts, not assignment)
            if norm(a)[0] not in ("ref", "txn") and norm(b)[0] not in ("ref", "txn"):
                acc3 = set_site_accepts(a, b)
                if acc3 is not None:
                    cnt["set_sites"] = cnt.get("set_sites", 0) + 1
                    oc["set_site_accepted" if acc3 else "set_site_refused"] = oc.get("set_site_accepted" if acc3 else "set_site_refused", 0) + 1
                    from_part = norm(b)[0] == "tuple" and len(norm(b)) == 2 and norm(b)[1] == norm(a)
                    if acc3 and not lay and not from_part:
                        out["violations"].append({"driver": "setsite", "size": 1,
                                                  "title": "%s().set(<%s value>) is accepted although their ARC-4 layouts differ" % (b, a),
                                                  "a": str(a), "b": str(b), "ia": i, "ib": j, "features": {"why": "setsite"}})
        # element sites: a[0].store_into(<b value>) and <b value>.set(a[0]) for array / tuple types a
        if isinstance(a, (abi.TupleTypeSpec, abi.ArrayTypeSpec)):
            for b in U:
                if norm(b)[0] in ("ref", "txn"):
                    continue
                for site, et, acc5 in element_sites(a, b):
                    cnt["element_sites"] = cnt.get("element_sites", 0) + 1
                    oc["element_site_accepted" if acc5 else "element_site_refused"] = \
                        oc.get("element_site_accepted" if acc5 else "element_site_refused", 0) + 1
                    if acc5 and norm(et) != norm(b):
                        out["violations"].append({"driver": "elementsite", "size": 1,
                                                  "title": "element 0 of %s (a %s) %s a value of type %s although their ARC-4 layouts differ" % (a, et, site, b),
                                                  "a": str(a), "b": str(b), "ia": i, "ib": -2, "features": {"why": "elementsite"}})
        # declared types that only exist as ARC-4 signature text (uint24, ufixed64x2, ...): an inner method call
        # may only accept a value whose layout is that of the declared type
        if norm(a)[0] not in ("ref", "txn"):
            for e in EXOTIC:
                acc4 = method_call_accepts(a, e)
                if acc4 is None:
                    continue
                cnt["traces_validated"] = cnt.get("traces_validated", 0) + 1
                oc["exotic_accepted" if acc4 else "exotic_refused"] = oc.get("exotic_accepted" if acc4 else "exotic_refused", 0) + 1
                if acc4 and norm(a) != norm_sdk(sdkabi.ABIType.from_string(e)):
                    out["violations"].append({"driver": "callsite", "size": 1,
                                              "title": "InnerTxnBuilder.MethodCall with declared parameter type %s accepts an argument of type %s (different ARC-4 layout)" % (e, a),
                                              "a": str(a), "b": e, "ia": i, "ib": -1, "features": {"why": "callsite-itxn"}})
        cnt["states"] = cnt.get("states", 0) + 1
        cnt["transitions"] = cnt.get("transitions", 0) + len(U)
    if items and base % 97 == 0:
        out["samples"].append({"a": str(U[items[0]]), "norm": list(norm(U[items[0]]))})
    return out


def call_site_accepts(a, b, warm=False):
    """does a subroutine whose parameter is annotated with b accept a value of type a?
    warm: the SAME subroutine object was called with a value of exactly type b before (a non-initial state)"""
    try:
        ann = b.annotation_type()
        inst = a.new_instance()
    except Exception:
        return None

    def f(x):
        return pt.Seq()
    f.__annotations__ = {"x": ann, "return": pt.Expr}
    try:
        sub = pt.Subroutine(pt.TealType.none)(f)
        if warm:
            try:
                sub(b.new_instance())
            except Exception:
                return None
        sub(inst)
        return True
    except (pt.TealInputError, pt.TealTypeError):
        return False


def element_sites(a, b):
    """a is an array / tuple type: its element 0 (a ComputedValue) is stored into / assigned to a value of type b.
    -> list of (site name, element type spec, accepted?)"""
    out = []
    try:
        ai, bi = a.new_instance(), b.new_instance()
        if isinstance(a, abi.TupleTypeSpec):
            if a.length_static() == 0:
                return out
            et = a.value_type_specs()[0]
        else:
            if isinstance(a, abi.StaticArrayTypeSpec) and a.length_static() == 0:
                return out
            et = a.value_type_spec()
    except Exception:
        return out
    for site, fn in (("store_into", lambda: ai[0].store_into(bi)), ("set(computed)", lambda: bi.set(ai[0]))):
        try:
            fn()
            out.append((site, et, True))
        except (pt.TealInputError, pt.TealTypeError):
            out.append((site, et, False))
        except (TypeError, AttributeError, KeyError, IndexError):
            pass
    return out


def set_site_accepts(a, b):
    """does B().set(x) build for an ABI value x of type a?"""
    try:
        bi, ai = b.new_instance(), a.new_instance()
    except Exception:
        return None
    try:
        bi.set(ai)
        return True
    except (pt.TealInputError, pt.TealTypeError):
        return False
    except (TypeError, AttributeError):
        return None   # set() of this type does not take a single ABI value


def method_call_accepts(a, b):
    """does InnerTxnBuilder.MethodCall accept an ABI value of type a for a parameter declared as b?"""
    try:
        inst = a.new_instance()
        sig = "f(%s)void" % (b if isinstance(b, str) else str(b))
        sdkabi.Method.from_signature(sig)
    except Exception:
        return None
    try:
        pt.InnerTxnBuilder.MethodCall(app_id=pt.Int(1), method_signature=sig, args=[inst])
        return True
    except (pt.TealInputError, pt.TealTypeError):
        return False


_UNIVERSE = None
_SITE_LIMIT = 0


def run(tier):
    global _UNIVERSE, _SITE_LIMIT
    rep = common.Report(PID, tier)
    rep.rule = ("every ordered pair of the type universe (base, reference/transaction atoms, arrays of base, tuples of "
                "arity <= 2 (3 in thorough), named tuples, depth-2 composites); a state = one type, a transition = one "
                "ordered pair")
    _UNIVERSE = universe(tier)
    nb = len(base_specs()) + len(atom_specs())
    _SITE_LIMIT = nb + (len(base_specs()) * 4 if tier == "thorough" else 12)
    rep.bounds["types"] = len(_UNIVERSE)
    rep.bounds["ordered_pairs"] = len(_UNIVERSE) ** 2
    rep.bounds["call_site_types"] = _SITE_LIMIT
    for sh in common.pmap_shards(_worker, list(range(len(_UNIVERSE))), order_seed=rep.seed):
        rep.merge(sh)
    rep.counters["distinct_nontrivial"] = rep.counters.get("traces_validated", 0)
    rep.assumptions = ["algosdk.abi as the ARC-4 reference codec", "normal form norm() written from ARC-4"]
    if not rep.outcomes.get("assignable") or not rep.outcomes.get("different"):
        raise common.MachineryError("vacuous")
    return rep.finish()


def replay(case):
    U = universe("thorough")
    cands = [t for t in U if str(t) == case["a"]], [t for t in U if str(t) == case["b"]]
    bad = False
    if case["b"] in EXOTIC:
        for a in cands[0]:
            if method_call_accepts(a, case["b"]) and norm(a) != norm_sdk(sdkabi.ABIType.from_string(case["b"])):
                print("MethodCall accepts", a, "for", case["b"])
                bad = True
        return bad
    for a in cands[0]:
        for b in cands[1]:
            asg = type_spec_is_assignable_to(a, b)
            print(a, "->", b, "assignable", asg, "same layout", same_layout(a, b))
            if asg and not same_layout(a, b):
                bad = True
            acc = call_site_accepts(a, b)
            if acc is not None and acc != asg:
                bad = True
            accw = call_site_accepts(a, b, warm=True)
            if accw is not None and accw != asg:
                print("subroutine parameter", b, "after a call with its own type: accepts" if accw else "rejects", a)
                bad = True
            if isinstance(a, (abi.TupleTypeSpec, abi.ArrayTypeSpec)) and norm(b)[0] not in ("ref", "txn"):
                for site, et, acc5 in element_sites(a, b):
                    if acc5 and norm(et) != norm(b):
                        print("element site", site, "accepts")
                        bad = True
            if norm(a)[0] not in ("ref", "txn") and norm(b)[0] not in ("ref", "txn"):
                acc2 = method_call_accepts(a, b)
                if acc2 is not None and acc2 != asg:
                    bad = True
                from_part = norm(b)[0] == "tuple" and len(norm(b)) == 2 and norm(b)[1] == norm(a)
                if set_site_accepts(a, b) and not same_layout(a, b) and not from_part:
                    print("set site accepts")
                    bad = True
    return bad
