"""C02 - subroutine calls behave as function calls, including recursion.

All call-graph recipes of vf/recipe/gen_sub.py (self / mutual recursion, arities, locals,
by-reference parameters, Return positions, call sites) x versions 4..10 x option settings
x recursion arguments; compiled TEAL is executed on the reference AVM and compared with
the direct evaluator (Python recursion, fresh locals per activation, aliasing for by-ref),
and the data stack recorded at every callsub/retsub boundary must satisfy the frame
invariant: what the caller held below the arguments is unchanged when the callee returns.
"""
import re

from .. import common, drive
from ..avm import asm, interp
from ..recipe import build as rb
from ..recipe import gen_sub, gen_abisub
from . import c01

PID = "C02"
_CFGS = None


def configs(tier):
    cf = []
    for v in range(4, 11):
        cf.append(rb.Cfg(v, "A"))
        if v >= 8:
            cf.append(rb.Cfg(v, "A", frame_pointers=False))
    cf.append(rb.Cfg(6, "A", scratch_slots=True))
    cf.append(rb.Cfg(10, "A", scratch_slots=False))
    cf.append(rb.Cfg(8, "A", scratch_slots=True, frame_pointers=False))
    if tier == "thorough":
        for v in range(4, 11):
            cf.append(rb.Cfg(v, "A", scratch_slots=True))
            if v >= 8:
                cf.append(rb.Cfg(v, "A", scratch_slots=True, frame_pointers=False))
                cf.append(rb.Cfg(v, "A", scratch_slots=False, frame_pointers=True))
        for v in (4, 6, 8, 10):
            cf.append(rb.Cfg(v, "S"))
    return cf


def frame_invariant(prog, res):
    """check the recorded callsub/retsub boundaries; returns a message or None"""
    sigs = {}
    for name, sd in prog.get("subs", {}).items():
        py = sd.get("pyname", name)
        sigs[py] = (len(sd["params"]), 0 if sd["ret"] == "none" else 1)
    pending = []
    for ev in res.boundaries or ():
        if ev[0] == "call":
            pending.append(ev)
        else:
            if not pending:
                return "retsub without matching callsub"
            call = pending.pop()
            label = call[1]
            m = re.match(r"^(.*)_(\d+)$", label)
            name = m.group(1) if m else label
            if name not in sigs:
                continue
            na, nr = sigs[name]
            before, after = call[3], ev[3]
            keep = before[:len(before) - na] if na else before
            if len(after) != len(keep) + nr:
                return "after %s returned the stack has %d entries, expected %d (caller's %d + %d result)" % (
                    label, len(after), len(keep) + nr, len(keep), nr)
            if tuple(after[:len(keep)]) != tuple(keep):
                return "caller's stack entries changed across the call of %s" % label
    return None


def check_program(prog, cfgs, inputs, out, size, driver, native=None):
    cnt, oc = out["counters"], out["outcomes"]
    exp_cache = {}
    for cfg in cfgs:
        tm = drive.tickmode_for(cfg)
        if native is not None:
            st, text = gen_abisub.compile_native(native, cfg)
        else:
            st, text = drive.compile_recipe(prog, cfg, tm)
        cnt["configs"] = cnt.get("configs", 0) + 1
        if st != "ok":
            cnt["compile_" + st] = cnt.get("compile_" + st, 0) + 1
            if st == "crash":
                out["violations"].append({
                    "driver": driver, "size": size, "title": "%s: compile crashed: %r (v%d)" % (driver, text, cfg.version),
                    "recipe": prog, "native": native, "cfg": cfg.to_json(), "features": {"why": "crash"}})
            continue
        p = asm.assemble(text)
        for ii, inp in enumerate(inputs):
            ek = (tm, ii)
            exp = exp_cache.get(ek)
            if exp is None:
                if native is not None:
                    exp = gen_abisub.expected_native(native, inp)
                else:
                    exp = drive.expected_outcome(prog, inp, cfg, tm)
                exp_cache[ek] = exp
            oc[exp[0]] = oc.get(exp[0], 0) + 1
            if exp[0] in ("RESOURCE", "NORETURN"):
                continue
            res = interp.run(p, drive.ctx_for(inp, cfg), fuel=drive.AVM_FUEL, record_boundaries=True)
            got = drive.observed_outcome(res, tm)
            cnt["traces_validated"] = cnt.get("traces_validated", 0) + 1
            cnt["boundaries_checked"] = cnt.get("boundaries_checked", 0) + len(res.boundaries or ())
            why = drive.compare(exp, got)
            if not why and res.verdict in ("APPROVE", "REJECT") and native is None:
                why = frame_invariant(prog, res)
            if why:
                out["violations"].append({
                    "driver": driver, "size": size, "title": "%s: %s (v%d fp=%s ss=%s)" % (driver, why, cfg.version, cfg.frame_pointers, cfg.scratch_slots),
                    "recipe": prog, "native": native, "cfg": cfg.to_json(), "input": inp, "expected": exp, "observed": got,
                    "fail_reason": res.why, "teal": text,
                    "features": dict({"why": why.split(" (")[0][:40]},
                                     **({"driver": driver, "operands_pending": bool(prog["meta"]["pending"])}
                                        if driver == "operand-transfer" else {})),
                })


def _worker(items, base):
    out = {"counters": {}, "outcomes": {}, "violations": [], "samples": []}
    for size, prog, inputs, driver, native in items:
        check_program(prog, _CFGS, inputs, out, size, driver, native)
        out["counters"]["states"] = out["counters"].get("states", 0) + 1
        out["counters"]["transitions"] = out["counters"].get("transitions", 0) + max(1, size)
    if items and base % 97 == 0:
        out["samples"].append({"driver": items[0][3], "recipe": items[0][1] or items[0][4]})
    return out


def run(tier):
    global _CFGS
    rep = common.Report(PID, tier)
    rep.rule = ("all call-graph recipes of the families F1-F6 up to the arity/locals bound (a state = one recipe; a "
                "transition = one parameter step from a smaller recipe) x configurations x recursion arguments; the "
                "compiled TEAL is run on the reference AVM with every callsub/retsub boundary recorded")
    _CFGS = configs(tier)
    rep.bounds["configs"] = [repr(c) for c in _CFGS]
    items = [(s, p, i, "subs", None) for s, p, i in gen_sub.programs(tier)]
    items += [(s, None, i, "abi-subs", nat) for s, nat, i in gen_abisub.programs(tier)]
    # every call graph over <= 3 routines (who calls whom, in which order the routines were defined)
    cg_inputs = [{"args": [bytes([n]), b"\x00"]} for n in (0, 1, 2, 3)]
    for k in (2, 3):
        for a in gen_sub.call_graphs(k, "all" if tier == "thorough" else "two"):
            items.append((k, gen_sub.call_graph(*a), cg_inputs, "call-graph", None))
    # control transfers inside an operand of a subroutine body (pending operands belong to the routine, not the caller)
    from ..recipe import gen_xfer
    for size, prog, inputs, meta in gen_xfer.programs():
        if meta["placement"] == "sub":
            items.append((size, dict(prog, meta=meta), inputs, "operand-transfer", None))
    rep.bounds["recipes"] = len(items)
    for sh in common.pmap_shards(_worker, items, shard_size=4, order_seed=rep.seed):
        rep.merge(sh)
    # by-reference / shared-slot call programs compiled with an OptimizeOptions object that an earlier compilation
    # has used: calls must still behave as function calls
    from . import c03
    c03.shared_options_driver(rep, mode="behaviour")
    rep.counters["distinct_nontrivial"] = rep.counters.get("states", 0)
    rep.assumptions = ["reference AVM interpreter", "recursion depth explored: arguments 0..4"]
    for need in ("APPROVE",):
        if not rep.outcomes.get(need):
            raise common.MachineryError("vacuous exploration")
    return rep.finish()


def replay(case):
    if case.get("driver") == "shared-options":
        from . import c03
        return c03.replay_shared(case, "behaviour", PID)
    cfg = rb.Cfg.from_json(case["cfg"])
    out = {"counters": {}, "outcomes": {}, "violations": [], "samples": []}
    check_program(case.get("recipe"), [cfg], [case["input"]] if "input" in case else [], out, 0, "replay", case.get("native"))
    for v in out["violations"]:
        print("still violates:", v["title"])
        print(" expected", v.get("expected"))
        print(" observed", v.get("observed"))
    return bool(out["violations"])
