"""C01 - compiled TEAL computes what the PyTeal expression denotes.

Explicit-state, breadth-first exhaustive enumeration of program recipes up to a
size bound x compile configurations x input alphabet; every compiled program is
executed on the reference AVM and compared with the direct evaluator.
"""
import itertools

from .. import common, drive
from ..avm import asm
from ..recipe import build as rb
from ..recipe import gen_ctrl, gen_expr, gen_reads

PID = "C01"


def configs(tier):
    cf = []
    for v in range(2, 11):
        cf.append(rb.Cfg(v, "A"))
    cf.append(rb.Cfg(6, "A", scratch_slots=True))
    cf.append(rb.Cfg(10, "A", scratch_slots=False, frame_pointers=False))
    for v in (2, 4, 6, 10):
        cf.append(rb.Cfg(v, "S"))
    if tier == "thorough":
        for v in range(2, 11):
            cf.append(rb.Cfg(v, "A", scratch_slots=True))
            cf.append(rb.Cfg(v, "A", scratch_slots=False))
            if v >= 8:
                cf.append(rb.Cfg(v, "A", frame_pointers=False))
                cf.append(rb.Cfg(v, "A", scratch_slots=True, frame_pointers=False))
        for v in (3, 5, 7, 8, 9):
            cf.append(rb.Cfg(v, "S"))
    return cf


def check_program(prog, cfgs, inputs, cache, out, size=0, driver="C", extra=None):
    """compile prog under each cfg, execute on each input, compare.  Appends to out."""
    cnt = out["counters"]
    oc = out["outcomes"]
    exp_cache = {}
    for cfg in cfgs:
        tm = drive.tickmode_for(cfg)
        st, text = drive.compile_recipe(prog, cfg, tm)
        cnt["configs"] = cnt.get("configs", 0) + 1
        if st != "ok":
            cnt["compile_" + st] = cnt.get("compile_" + st, 0) + 1
            continue
        p = asm.assemble(text)
        hard = [m for _ln, m in p.issues if "backward branch" not in m]
        if hard:
            # a text the assembler rejects computes nothing (backward branches below v4 are C04's recorded
            # finding and are executable, so they do not count here)
            out["violations"].append({
                "driver": driver, "size": size, "title": "%s: emitted program does not assemble: %s (v%d %s)" % (driver, hard[0], cfg.version, cfg.mode),
                "recipe": prog, "cfg": cfg.to_json(), "input": inputs[0] if inputs else {}, "teal": text,
                "features": dict(extra or {}, why="does not assemble")})
            continue
        skey = p.stream()
        for ii, inp in enumerate(inputs):
            ek = (tm, cfg.mode, ii)
            exp = exp_cache.get(ek)
            if exp is None:
                exp = drive.expected_outcome(prog, inp, cfg, tm)
                exp_cache[ek] = exp
            oc[exp[0]] = oc.get(exp[0], 0) + 1
            if exp[0] in ("RESOURCE", "NORETURN"):
                cnt["not_comparable"] = cnt.get("not_comparable", 0) + 1
                continue
            res = cache.run(p, skey, (cfg.mode, ii), lambda: drive.ctx_for(inp, cfg))
            got = drive.observed_outcome(res, tm)
            cnt["traces_validated"] = cnt.get("traces_validated", 0) + 1
            why = drive.compare(exp, got)
            if why:
                out["violations"].append({
                    "driver": driver, "size": size, "title": "%s: %s (v%d %s)" % (driver, why, cfg.version, cfg.mode),
                    "recipe": prog, "cfg": cfg.to_json(), "input": inp, "expected": exp, "observed": got,
                    "fail_reason": res.why, "teal": text, "features": dict(extra or {}, why=why),
                })
    return out


def _new_out():
    return {"counters": {}, "outcomes": {}, "violations": [], "samples": []}


# ---------------------------------------------------------------- driver C
_C_CFGS = None
_C_TAILS = ("implicit",)


def _worker_ctrl(items, base):
    out = _new_out()
    cache = drive.ExecCache()
    inputs = drive.make_inputs_basic()
    for k, (size, body) in enumerate(items):
        for tail in _C_TAILS:
            prog = gen_ctrl.make_program(body, tail)
            check_program(prog, _C_CFGS, inputs, cache, out, size=size, driver="C")
            if gen_ctrl.has_repeated_stmt(body):
                # same program, but every repeated statement is ONE Expr object used several times
                check_program(dict(prog, share=True), _C_CFGS[4:9:2], inputs, cache, out, size=size, driver="C-shared")
            if size <= 2 and tail == "implicit":
                # the same program beside two variables with requested (adjacent) slot ids that stay live
                # across it: their values enter the result
                m = prog["main"]
                pinned = dict(prog, vars=dict(prog["vars"], p1=["u", 1], p2=["u", 2]))
                pinned["main"] = (["Seq", ["Store", "p1", ["Int", 11]], ["Store", "p2", ["Int", 22]]] + m[1:-1] +
                                  [["Add", m[-1], ["Mul", ["Load", "p1"], ["Load", "p2"]]]])
                check_program(pinned, _C_CFGS[::3], inputs, cache, out, size=size, driver="C-pinned")
        out["counters"]["states"] = out["counters"].get("states", 0) + 1
        out["counters"]["transitions"] = out["counters"].get("transitions", 0) + gen_ctrl.count_transitions(body)
        if len(cache.cache) > 20000:
            cache.cache.clear()
    out["counters"]["distinct_streams_executed"] = cache.runs
    if items and base % 997 == 0:
        out["samples"].append({"driver": "C", "recipe": gen_ctrl.make_program(items[0][1])})
    return out


# ---------------------------------------------------------------- driver E
_E_CFGS = None


def _worker_expr(items, base):
    out = _new_out()
    cache = drive.ExecCache()
    for k, (size, prog, inputs, minver) in enumerate(items):
        cfgs = [c for c in _E_CFGS if c.version >= minver]
        check_program(prog, cfgs, inputs, cache, out, size=size, driver="E")
        out["counters"]["states"] = out["counters"].get("states", 0) + 1
        out["counters"]["transitions"] = out["counters"].get("transitions", 0) + size
        if len(cache.cache) > 20000:
            cache.cache.clear()
    out["counters"]["distinct_streams_executed"] = cache.runs
    if items and base % 499 == 0:
        out["samples"].append({"driver": "E", "recipe": items[0][1]})
    return out


def run(tier):
    global _C_CFGS, _E_CFGS, _C_TAILS
    rep = common.Report(PID, tier)
    rep.rule = ("breadth-first enumeration of all program recipes up to the size bound (a state = one recipe, a "
                "transition = one grammar production); each recipe x configuration is compiled by the real compiler, "
                "each result x input is executed on the reference AVM and compared with the direct evaluator; "
                "distinct_nontrivial = recipes whose expected outcome is not RESOURCE on at least one input")
    cfgs = configs(tier)
    _C_CFGS = cfgs
    _E_CFGS = [c for c in cfgs if c.mode == "A"]
    # --- driver C: control flow
    full_n = 3 if tier == "quick" else 4
    loop_n = 4 if tier == "quick" else 5
    _C_TAILS = ("implicit",) if tier == "quick" else ("implicit", "approve")
    g = gen_ctrl.Grammar()
    items = list(g.programs(full_n))
    seen = set(b for _n, b in items)
    lg = gen_ctrl.Grammar(gen_ctrl.LOOP_ATOMS, gen_ctrl.LOOP_COMPOUNDS, gen_ctrl.LOOP_CONDS)
    for n, b in lg.programs(loop_n):
        if b not in seen:
            seen.add(b)
            items.append((n, b))
    rep.bounds["C.full_alphabet_max_nodes"] = full_n
    rep.bounds["C.loop_alphabet_max_nodes"] = loop_n
    rep.bounds["C.recipes"] = len(items)
    rep.bounds["configs"] = [repr(c) for c in cfgs]
    for sh in common.pmap_shards(_worker_ctrl, items, order_seed=rep.seed):
        rep.merge(sh)
    # --- driver E: expressions
    eitems = list(gen_expr.e1_programs()) + list(gen_expr.e2_programs(2 if tier == "quick" else 3))
    # return analysis: every {returns, falls through} assignment over chains of <= 4 conditional arms + final arm
    rc = [(s, p, i, 2 if "/main" in lab else 4) for s, p, i, lab in gen_ctrl.return_chains(4 if tier == "thorough" else 3)]
    rep.bounds["return_chain_programs"] = len(rc)
    eitems += rc
    e3 = list(gen_expr.e3_programs())
    rep.bounds["E3.operator_pairs_x_nestings"] = len(e3)
    eitems += e3
    rep.bounds["E.recipes"] = len(eitems)
    for sh in common.pmap_shards(_worker_expr, eitems, order_seed=rep.seed):
        rep.merge(sh)
    # --- driver R: reads and effects
    ritems = list(gen_reads.programs())
    rep.bounds["R.recipes"] = len(ritems)
    for sh in common.pmap_shards(_worker_expr, ritems, order_seed=rep.seed):
        rep.merge(sh)
    # one OptimizeOptions object used for two different programs (as Router.compile_program does): the second
    # program must still behave as when compiled alone
    from . import c03
    c03.shared_options_driver(rep, mode="behaviour")
    rep.counters["distinct_nontrivial"] = rep.counters.get("states", 0)
    rep.assumptions = [
        "reference AVM interpreter vf/avm (anchored by its self-test and the golden TEAL corpus)",
        "small-scope hypothesis: constructs lower compositionally, interactions are pairwise",
        "operand values from boundary alphabets, not all 2^64",
    ]
    # vacuity guard
    for need in ("APPROVE", "REJECT", "FAIL"):
        if not rep.outcomes.get(need):
            raise common.MachineryError("vacuous exploration: no %s outcome observed" % need)
    return rep.finish()


def replay(case):
    """re-execute one recorded case without the explorer; returns True if it still violates"""
    if case.get("driver") == "shared-options":
        from . import c03
        return c03.replay_shared(case, "behaviour", PID)
    cfg = rb.Cfg.from_json(case["cfg"])
    out = _new_out()
    check_program(case["recipe"], [cfg], [case["input"]], drive.ExecCache(), out)
    for v in out["violations"]:
        print("still violates:", v["title"])
        print("expected", v["expected"])
        print("observed", v["observed"])
    return bool(out["violations"])
