"""C11 - compilation is deterministic and independent of process history.

The one genuinely stateful property: explored as a state machine.  Fresh interpreter
processes (fork servers, one set per PYTHONHASHSEED) replay every history of API
activities up to the length bound in a forked child, then compile the probes; every probe
must be byte-identical to its baseline compiled in a fresh interpreter without history,
the baselines must be identical across hash seeds and allocation patterns, compiling the
same expression twice and Router.compile_program repeatedly must give the same text.
States are canonicalised as the tuple of process-global fields reached.
"""
import itertools
import json
import os
import re
import subprocess
import sys
import threading

from .. import common

PID = "C11"
SEEDS = ["0", "1", "2", "3", "12345", "random"]


class Server:
    def __init__(self, seed, prealloc=0):
        env = dict(os.environ)
        env["PYTHONHASHSEED"] = seed
        env["VF_PREALLOC"] = str(prealloc)
        code = ("import os\n"
                "junk = [object() for _ in range(int(os.environ.get('VF_PREALLOC', '0')))]\n"
                "import runpy\n"
                "runpy.run_module('vf.c11_server', run_name='__main__')\n")
        self.p = subprocess.Popen(["/venv/bin/python", "-c", code], cwd=common.ROOT, env=env, stdin=subprocess.PIPE,
                                  stdout=subprocess.PIPE, text=True, bufsize=1)
        self.seed = seed
        self.n = 0

    def ask(self, history, full=False, mid=None):
        self.n += 1
        req = {"id": self.n, "history": list(history), "full": full}
        if mid is not None:
            req["mid"] = list(mid)
        self.p.stdin.write(json.dumps(req) + "\n")
        self.p.stdin.flush()
        line = self.p.stdout.readline()
        if not line:
            raise common.MachineryError("C11 server (seed %s) died" % self.seed)
        res = json.loads(line)
        if "fatal" in res:
            raise common.MachineryError("C11 child crashed: %s" % res["fatal"])
        return res

    def close(self):
        try:
            self.p.stdin.close()
            self.p.wait(timeout=10)
        except Exception:
            self.p.kill()


_SLOT = re.compile(r"^(load|store) (\d+)$")


def equal_up_to_slot_renumbering(t1, t2):
    a, b = t1.split("\n"), t2.split("\n")
    if len(a) != len(b):
        return False
    fwd, bwd = {}, {}
    for x, y in zip(a, b):
        mx, my = _SLOT.match(x.strip()), _SLOT.match(y.strip())
        if mx and my and mx.group(1) == my.group(1):
            s1, s2 = mx.group(2), my.group(2)
            if fwd.setdefault(s1, s2) != s2 or bwd.setdefault(s2, s1) != s1:
                return False
        elif x != y:
            # `int N` used by index() of a slot may also be renumbered; keep strict otherwise
            return False
    return True


def activities():
    from .. import c11_server  # only for the names; nothing is executed in this process
    return sorted(c11_server.ACTIVITIES)


def run(tier):
    rep = common.Report(PID, tier)
    rep.rule = ("all histories of API activities of length <= L over the 17-activity alphabet (a state = the tuple of "
                "process-global fields reached, a transition = one activity), each replayed in a child forked from a fresh "
                "interpreter, followed by every probe of c11_server.PROBES (incl. tie populations of 6 and of 12 constants per constant block) x 2 versions compared byte-for-byte with the history-free baseline; "
                "baselines compared across hash seeds {0,1,2,3,12345,random} and a shifted allocation pattern")
    L = 2 if tier == "quick" else 3
    acts = activities()
    hist = [()]
    for n in range(1, L + 1):
        hist += list(itertools.product(acts, repeat=n))
    rep.bounds["history_max_len"] = L
    rep.bounds["activities"] = acts
    rep.bounds["histories"] = len(hist)
    rep.bounds["hash_seeds"] = SEEDS
    nserv = min(common.ncpu(), 16)
    servers = [Server("0") for _ in range(nserv)]
    others = [Server(s) for s in SEEDS[1:]] + [Server("0", prealloc=200000), Server("7", prealloc=50000)]
    violations = []
    try:
        # ---- baselines
        base = servers[0].ask((), full=True)
        base_hash = servers[1 % nserv].ask((), full=False)
        import hashlib
        for k in list(base["probes"]):
            if k.startswith(("same_expr_", "router_twice")):
                # only the verdict line of the repeat probes is comparable across processes
                base.setdefault("detail", {})[k] = base["probes"][k]
                base["probes"][k] = base["probes"][k].split("\n", 1)[0]
        for k, text in base["probes"].items():
            if hashlib.sha256(text.encode()).hexdigest() != base_hash["probes"][k]:
                violations.append({"driver": "fresh-process", "size": 0, "title": "two fresh interpreters compile probe %s differently" % k,
                                   "probe": k, "history": [], "features": {"why": "fresh processes differ", "probe": k.split("@")[0]}})
        for srv in others:
            b2 = srv.ask((), full=True)
            rep.add("traces_validated", len(b2["probes"]))
            for k, text in b2["probes"].items():
                if k.startswith(("same_expr_", "router_twice")):
                    text = text.split("\n", 1)[0]
                if text != base["probes"][k]:
                    violations.append({"driver": "hash-seed", "size": 0,
                                       "title": "probe %s differs under PYTHONHASHSEED=%s" % (k, srv.seed), "probe": k, "history": [],
                                       "seed": srv.seed, "text": text, "baseline": base["probes"][k],
                                       "features": {"why": "hash seed", "probe": k.split("@")[0]}})
        # repeat-compilation probes must say SAME already in the baseline
        for k, text in base["probes"].items():
            if k.startswith(("same_expr_", "router_twice")) and text != "SAME":
                detail = base.get("detail", {}).get(k, text)
                violations.append({"driver": "repeat", "size": 0,
                                   "title": "%s: compiling the same object again gives different TEAL (fresh process, no history): %s" % (k, text),
                                   "probe": k, "history": [], "text": detail[:6000],
                                   "features": {"why": "repeat compile differs", "probe": k.split("@")[0],
                                                "renumbering_only": "renumbering_only=True" in text}})
        # ---- histories, partitioned over the seed-0 servers
        states = {}
        lock = threading.Lock()
        errors = []

        def work(si):
            srv = servers[si]
            try:
                for hi in range(si, len(hist), nserv):
                    h = hist[hi]
                    res = srv.ask(h)
                    with lock:
                        rep.add("traces_validated", len(res["probes"]))
                        rep.add("transitions", max(1, len(h)))
                        states[json.dumps(res["state"], sort_keys=True)] = states.get(json.dumps(res["state"], sort_keys=True), 0) + 1
                        for a, msg in res.get("activity_errors", {}).items():
                            violations.append({"driver": "activity", "size": len(h), "title": "activity %s leaked %s" % (a, msg),
                                               "history": list(h), "features": {"why": "activity leaked exception"}})
                    bad = [k for k, v in res["probes"].items() if v != base_hash["probes"][k]]
                    if bad:
                        full = srv.ask(h, full=True)
                        with lock:
                            for k in bad:
                                violations.append({
                                    "driver": "history", "size": len(h),
                                    "title": "after history %s probe %s compiles differently from a fresh process" % (list(h), k),
                                    "history": list(h), "probe": k, "text": full["probes"][k][:6000], "baseline": base["probes"][k][:6000],
                                    "state": res["state"],
                                    "features": {"why": "history dependence", "probe": k.split("@")[0],
                                                 "equal_up_to_slot_renumbering": equal_up_to_slot_renumbering(full["probes"][k], base["probes"][k])}})
            except BaseException as e:
                errors.append(e)
        threads = [threading.Thread(target=work, args=(i,)) for i in range(nserv)]
        for t in threads:
            t.start()
        for t in threads:
            t.join()
        if errors:
            raise errors[0]
        # ---- split probes: unrelated activity BETWEEN the construction of a program's objects and its compilation
        split_base = servers[0].ask((), full=True, mid=())
        mids = [()] + [(a,) for a in acts]
        if tier == "thorough":
            mids += list(itertools.product(acts, repeat=2))
        pre_hist = [(), ("compile_v6",), ("router_ok",)]
        rep.bounds["split_mid_sequences"] = len(mids)

        def work_split(si):
            srv = servers[si]
            try:
                jobs_ = [(h, m) for h in pre_hist for m in mids]
                for ji in range(si, len(jobs_), nserv):
                    h, m = jobs_[ji]
                    res = srv.ask(h, full=True, mid=m)
                    with lock:
                        rep.add("traces_validated", len(res["probes"]))
                        rep.add("transitions", max(1, len(h) + len(m)))
                        for k, text in res["probes"].items():
                            if text != split_base["probes"][k]:
                                violations.append({
                                    "driver": "split", "size": len(h) + len(m),
                                    "title": "probe %s built across activity %s (after history %s) compiles differently from the same probe built without interruption" % (k, list(m), list(h)),
                                    "history": list(h), "mid": list(m), "probe": k, "text": text[:6000], "baseline": split_base["probes"][k][:6000],
                                    "features": {"why": "history dependence (interleaved)", "probe": k.split("@")[0],
                                                 "equal_up_to_slot_renumbering": equal_up_to_slot_renumbering(text, split_base["probes"][k])}})
            except BaseException as e:
                errors.append(e)
        threads = [threading.Thread(target=work_split, args=(i,)) for i in range(nserv)]
        for t in threads:
            t.start()
        for t in threads:
            t.join()
        if errors:
            raise errors[0]
        # a few histories under the other hash seeds as well
        for srv in others:
            for h in hist[1:1 + len(acts)]:
                res = srv.ask(h)
                rep.add("traces_validated", len(res["probes"]))
                for k, v in res["probes"].items():
                    if v != base_hash["probes"][k]:
                        violations.append({"driver": "history+seed", "size": len(h),
                                           "title": "seed %s, history %s: probe %s differs from the baseline" % (srv.seed, list(h), k),
                                           "history": list(h), "probe": k, "seed": srv.seed,
                                           "features": {"why": "history dependence", "probe": k.split("@")[0]}})
    finally:
        for s in servers + others:
            s.close()
    rep.violations = violations
    rep.counters["states"] = len(states)
    rep.counters["histories"] = len(hist)
    rep.counters["distinct_nontrivial"] = len(hist)
    rep.outcomes = {"distinct_global_states": len(states)}
    rep.samples = [{"history": list(hist[min(len(hist) - 1, 40)]), "global_state_examples": [json.loads(s) for s in list(states)[:3]]}]
    rep.assumptions = ["hash seeds and allocation patterns cannot be exhausted: explored on the fixed finite set listed in bounds",
                       "the fork server itself performs no PyTeal activity before forking"]
    rep.notes.append("hash-seed / allocation dimension is NOT exhaustive (2^32 seeds); histories are exhaustive up to the bound")
    if len(states) < 3:
        raise common.MachineryError("vacuous: only %d global states reached" % len(states))
    return rep.finish()


def replay(case):
    srv = Server(case.get("seed", "0"))
    base = Server("0")
    try:
        if "mid" in case:
            r = srv.ask(case.get("history", []), full=True, mid=case["mid"])
            b = base.ask((), full=True, mid=())
        else:
            r = srv.ask(case.get("history", []), full=True)
            b = base.ask((), full=True)
        k = case.get("probe")
        if k is None:
            return False
        if k.startswith(("same_expr_", "router_twice")):
            print(k, "->", r["probes"][k][:40].split("\n")[0])
            return r["probes"][k] != "SAME"
        same = r["probes"][k] == b["probes"][k]
        print("probe", k, "equal to baseline:", same)
        return not same
    finally:
        srv.close()
        base.close()
