"""C13 - literals reach the program byte-for-byte.

Exhaustive enumeration of literal texts up to a length bound over adversarial alphabets
for every literal constructor; the emitted byte/int/addr/method line is tokenised and
decoded by the independent TEAL grammar and compared with Python's own decoding of what
the user wrote; malformed literals must be rejected at construction.
"""
import base64
import binascii
import hashlib
import itertools
import re

import pyteal as pt
from algosdk import encoding as sdkenc

from .. import common, drive
from ..avm import asm

PID = "C13"

STR_ALPHA = ['"', "\\", "/", ";", " ", "n", "x", "0", "\n", "\r", "\t", "\x00", "\x7f", "é", " ", "😀", ")", "(", "\ufeff", "\u2028"]
B16_ALPHA = ["0", "f", "A", "g", "x", " ", "="]
B32_ALPHA = ["A", "M", "7", "1", "a", "=", "8"]
B64_ALPHA = ["A", "Y", "z", "/", "+", "=", "-", " "]
SIG_ALPHA = ["a", "(", ")", ",", '"', " ", "\n", "\\"]


def _compile(expr):
    return pt.compileTeal(pt.Seq(pt.Pop(expr), pt.Int(1)), pt.Mode.Application, version=6)


def emitted_value(text):
    """-> (value pushed by the single literal instruction, None) or (None, reason)"""
    p = asm.assemble(text)
    if p.issues:
        return None, "emitted program does not assemble: %s" % (p.issues[0],)
    ops = [i.op for i in p.instrs]
    if ops != [ops[0], "pop", "int", "return"] or ops[0] not in ("byte", "int", "addr", "method", "pushbytes", "pushint"):
        return None, "the literal changes the instruction stream: %s" % (ops[:8],)
    if p.labels:
        return None, "the literal introduces labels"
    return p.instrs[0].args[0], None


def assembled_value_issue(ctor, expected):
    for uses in (1, 2):
        try:
            text = pt.compileTeal(pt.Seq(*[pt.Pop(ctor()) for _ in range(uses)], pt.Int(1)), pt.Mode.Application,
                                  version=6, assembleConstants=True)
        except drive.PT_ERRORS as ex:
            return "assembleConstants=True: compile fails: %s" % (str(ex)[:80],)
        except Exception as ex:
            return "assembleConstants=True: compile died with %s: %s" % (type(ex).__name__, str(ex)[:80])
        p = asm.assemble(text)
        if p.issues:
            return "assembleConstants=True: emitted program does not assemble: %s" % (p.issues[0],)
        intc, bytec, vals = [], [], []
        for ins in p.instrs:
            if ins.op == "intcblock":
                intc = ins.args[0]
            elif ins.op == "bytecblock":
                bytec = ins.args[0]
            elif ins.op in ("pushint", "pushbytes", "int", "byte", "addr", "method"):
                vals.append(ins.args[0])
            elif ins.op.startswith("intc"):
                i = int(ins.op[5:]) if "_" in ins.op else ins.args[0]
                vals.append(intc[i] if i < len(intc) else "intc index out of range")
            elif ins.op.startswith("bytec"):
                i = int(ins.op[6:]) if "_" in ins.op else ins.args[0]
                vals.append(bytec[i] if i < len(bytec) else "bytec index out of range")
        # the literal is used `uses` times, then `int 1` for the return value
        lit_vals = vals[:uses]
        if len(vals) != uses + 1 or any(v != expected for v in lit_vals):
            return "assembleConstants=True (%d use(s)): loads %r instead of %r" % (uses, lit_vals, expected)
    return None


def py_b16(s):
    t = s[2:] if s.startswith("0x") else s
    if len(t) % 2 or not re.fullmatch(r"[0-9A-Fa-f]*", t):
        return None
    return bytes.fromhex(t)


def py_b32(s):
    body = s.rstrip("=")
    pad = len(s) - len(body)
    if not re.fullmatch(r"[A-Z2-7]*", body) or len(body) % 8 in (1, 3, 6):
        return None
    if pad and (len(s) % 8 != 0 or pad > 6):
        return None
    if "=" in body:
        return None
    try:
        return base64.b32decode(body + "=" * (-len(body) % 8))
    except (binascii.Error, ValueError):
        return None


def py_b64(s):
    if not re.fullmatch(r"[A-Za-z0-9+/]*={0,2}", s) or len(s) % 4:
        return None
    try:
        return base64.b64decode(s, validate=True)
    except (binascii.Error, ValueError):
        return None


def py_addr(s):
    try:
        if len(s) != 58:
            return None
        return sdkenc.decode_address(s)
    except Exception:
        return None


def sel(sig):
    h = hashlib.new("sha512_256")
    h.update(sig.encode("utf-8"))
    return h.digest()[:4]


def check_one(kind, lit, out):
    """kind in str/bytes/base16/base32/base64/addr/int/method"""
    cnt, oc = out["counters"], out["outcomes"]
    cnt["traces_validated"] = cnt.get("traces_validated", 0) + 1
    expected = None
    wellformed = True
    try:
        if kind == "str":
            expected = lit.encode("utf-8")
            ctor = lambda: pt.Bytes(lit)
        elif kind == "bytes":
            expected = bytes(lit)
            ctor = lambda: pt.Bytes(lit)
        elif kind == "bytearray_reused":
            # the literal is what the buffer held when Bytes(...) was built; the caller reuses / wipes / resizes
            # its buffer afterwards
            expected = bytes(lit)

            def ctor():
                buf = bytearray(lit)
                e = pt.Bytes(buf)
                for i in range(len(buf)):
                    buf[i] = (buf[i] + 1) & 0xFF
                buf.extend(b"\xee")
                return e
        elif kind in ("base16", "base32", "base64"):
            expected = {"base16": py_b16, "base32": py_b32, "base64": py_b64}[kind](lit)
            wellformed = expected is not None
            ctor = lambda: pt.Bytes(kind, lit)
        elif kind == "addr":
            expected = py_addr(lit)
            wellformed = expected is not None
            ctor = lambda: pt.Addr(lit)
        elif kind == "int":
            wellformed = type(lit) is int and 0 <= lit < (1 << 64)
            expected = lit if wellformed else None
            ctor = lambda: pt.Int(lit)
        elif kind == "method":
            expected = sel(lit)
            ctor = lambda: pt.MethodSignature(lit)
        else:
            raise AssertionError(kind)
    except UnicodeEncodeError:
        return
    why = None
    feats = {"kind": kind, "wellformed": wellformed}
    try:
        e = ctor()
    except drive.PT_ERRORS as ex:
        oc[kind + ":rejected"] = oc.get(kind + ":rejected", 0) + 1
        if wellformed and kind != "method":
            why = "well-formed literal rejected: %s" % (str(ex)[:80],)
        e = None
    except Exception as ex:
        oc[kind + ":crash"] = oc.get(kind + ":crash", 0) + 1
        why = "constructor died with %s: %s" % (type(ex).__name__, str(ex)[:80])
        feats["crash"] = type(ex).__name__
        e = None
    if e is not None:
        oc[kind + ":accepted"] = oc.get(kind + ":accepted", 0) + 1
        if not wellformed:
            why = "malformed literal accepted"
            if kind == "addr":
                feats["addr_len58_base32_bad_checksum"] = bool(len(lit) == 58 and re.fullmatch(r"[A-Z2-7]{58}", lit))
        else:
            try:
                text = _compile(e)
            except drive.PT_ERRORS as ex:
                text = None
                why = "accepted at construction but compile fails: %s" % (str(ex)[:80],)
            if text is not None:
                got, reason = emitted_value(text)
                if reason:
                    why = reason
                    feats["breaks_line_structure"] = True
                elif got != expected:
                    why = "pushes %r instead of %r" % (got, expected)
                elif kind != "int" or True:
                    # the same literal through the constant assembler (single use -> pushbytes/pushint,
                    # double use -> constant block): the value must still be the user's
                    why = assembled_value_issue(ctor, expected)
                    if why:
                        feats["assemble_constants"] = True
    if why:
        if kind == "method":
            feats["sig_has_quote_or_linebreak_or_backslash"] = any(c in lit for c in '"\n\r\\')
        out["violations"].append({"driver": kind, "size": len(lit) if hasattr(lit, "__len__") else 1,
                                  "title": "%s literal %r: %s" % (kind, lit, why), "kind": kind,
                                  "literal": lit if kind != "bytes" else bytes(lit), "features": feats})


def _worker(items, base):
    out = {"counters": {}, "outcomes": {}, "violations": [], "samples": []}
    for kind, lit in items:
        check_one(kind, lit, out)
    out["counters"]["states"] = len(items)
    out["counters"]["transitions"] = len(items)
    if items and base % 20011 == 0:
        out["samples"].append({"kind": items[0][0], "literal": items[0][1]})
    return out


def strings(alpha, maxlen):
    for n in range(0, maxlen + 1):
        for t in itertools.product(alpha, repeat=n):
            yield "".join(t)


GOOD_ADDR = "AAAAAAAAAAAAAAAAAAAAAAAAAAAAAAAAAAAAAAAAAAAAAAAAAAAAY5HFKQ"
GOOD_ADDR2 = sdkenc.encode_address(bytes(range(32)))


def literals(tier):
    items = []
    L = 3 if tier == "quick" else 4
    for s in strings(STR_ALPHA, L):
        items.append(("str", s))
    for extra in ["a" * 4096, "\\" * 50, '"' * 50, 'x"; int 1; //', "\\x", "\\\"", "ab\\", "//", "Ā￿", "\U0010ffff"]:
        items.append(("str", extra))
    for n in range(0, 256):
        items.append(("bytes", bytes([n])))
    if tier == "thorough":
        for a in range(256):
            for b in (0, 0x0a, 0x22, 0x5c, 0xff, a):
                items.append(("bytes", bytes([a, b])))
    items.append(("bytes", b""))
    items.append(("bytes", bytearray(b"\x00\xff")))
    for n in (0, 1, 0x22, 0x5c, 0xff):
        items.append(("bytearray_reused", bytes([n])))
        items.append(("bytearray_reused", bytes([n, 0x0a, n])))
    items.append(("bytearray_reused", b""))
    items.append(("bytearray_reused", b"secret"))
    for s in strings(B16_ALPHA, 4):
        items.append(("base16", s))
    for s in strings(B32_ALPHA, 4 if tier == "quick" else 5):
        items.append(("base32", s))
    for s in ["MFRGGZDF", "MFRGGZDFMY", "MFRGGZDFMY======", "MFRGGZDFMY=", "ME======", "ME=", "MFRA====", "MFRGG===", "MFRGGZA=",
              "MFRGGZDFM", "MFRGGZDFMZTQ", "MFRGGZDFMZTWQ===", "mfrggzdf"]:
        items.append(("base32", s))
    for s in strings(B64_ALPHA, 4 if tier == "quick" else 5):
        items.append(("base64", s))
    for s in ["YWJj", "YWJjZA==", "YWJjZGU=", "YWJjZGVm", "YWJjZA=", "YWJjZA", "YWJj\n", "YW Jj", "YWJj====", "=YWJ"]:
        items.append(("base64", s))
    # addresses
    for good in (GOOD_ADDR, GOOD_ADDR2):
        items.append(("addr", good))
        for i in range(58):
            for ch in ("A", "7", "a", "1"):
                if good[i] != ch:
                    items.append(("addr", good[:i] + ch + good[i + 1:]))
        for bad in (good[:-1], good + "A", "", good.lower(), good[:57] + "=", " " + good[1:]):
            items.append(("addr", bad))
        # every way of lengthening / shortening the 58 characters at either end by padding, blanks, line ends
        for k in range(1, 9):
            items.append(("addr", good + "=" * k))
            items.append(("addr", good[:58 - k] + "=" * k))
        for extra in (" ", "\n", "\t", "\r\n", "\x00", "A" * 6, "AA======"):
            items.append(("addr", good + extra))
            items.append(("addr", extra + good))
    for n in (-1, 0, 1, 127, 128, (1 << 63), (1 << 64) - 1, (1 << 64), True, 1.0, "1", None):
        items.append(("int", n))
    for s in strings(SIG_ALPHA, 3 if tier == "quick" else 4):
        items.append(("method", s))
    for s in ["add(uint64,uint64)uint64", "f()void", "a(b)c\nint 1", 'x"y', "é()void"]:
        items.append(("method", s))
    return items


def run(tier):
    rep = common.Report(PID, tier)
    rep.rule = ("every literal text up to the length bound over per-kind adversarial alphabets (a state = one literal; a "
                "transition = appending one character), for Bytes(str), Bytes(bytes), base16/32/64, Addr (every "
                "single-character corruption of two valid addresses), Int boundary values, MethodSignature")
    items = literals(tier)
    rep.bounds["literals"] = len(items)
    rep.bounds["str_max_len"] = 3 if tier == "quick" else 4
    for sh in common.pmap_shards(_worker, items, order_seed=rep.seed):
        rep.merge(sh)
    # literals do not live alone: populations of 7 Int (and 7 Bytes) literals in every order of a frequency profile
    # (C12's frequency-rank driver) - each literal must still be the value pushed at each of its sites when the
    # constants are assembled
    from . import c12
    pops = []
    for pool in (["s0", "s1", "s2", "s3", "s5", "L1000", "T"], ["s1", "s127", "L128", "E", "s5", "T", "L1000"],
                 ["ba", "bb", "bc", "bd", "be", "bf", "bT"]):
        for names in itertools.permutations(pool):
            pops.append({"driver": "rank", "names": list(names), "freqs": [4, 4, 3, 3, 2, 2, 2], "size": 7})
    rep.bounds["literal_populations"] = len(pops)
    for sh in common.pmap_shards(c12._worker, pops, order_seed=rep.seed):
        rep.merge(sh)
    rep.counters["distinct_nontrivial"] = rep.counters.get("states", 0)
    rep.assumptions = ["TEAL literal grammar as ported from the go-algorand assembler (vf/avm/tokens.py)",
                       "well-formedness per RFC 4648 (base32 unpadded or fully padded; base64 padded)"]
    return rep.finish()


def replay(case):
    if case.get("driver") == "rank":
        from . import c12
        return c12.replay(case)
    out = {"counters": {}, "outcomes": {}, "violations": [], "samples": []}
    check_one(case["kind"], case["literal"], out)
    for v in out["violations"]:
        print("still violates:", v["title"])
    return bool(out["violations"])
