"""C14 - inner method calls are marshalled per ARC-4.

Signatures as in C09 (0..17 plain arguments, transaction / reference kinds at every
position of short lists).  A program performs InnerTxnBuilder.ExecuteMethodCall; the inner
group recorded by the reference AVM at itxn_submit is decoded by an independent callee-side
ARC-4 decoder (selector; arguments 1..14 in their own application argument, the fifteenth and
later packed as one tuple; reference arguments through the foreign arrays; transaction
arguments = the immediately preceding inner transactions) and must yield the arguments given.
"""
import itertools

import pyteal as pt
from pyteal import abi
from algosdk import abi as sdkabi

from .. import common, drive, abi_gen
from ..avm import asm, interp
from . import c09

PID = "C14"
_VERSIONS = (6, 8)
ADDR = [b"\x01" * 32, b"\x22" * 32, b"\x33" * 32]
APP_ADDR = b"\x0a" * 32        # global CurrentApplicationAddress of the reference AVM's default context
OUTER_SENDER = b"\x01" * 32    # txn Sender of the default outer transaction
TXT = {"pay": pt.TxnType.Payment, "axfer": pt.TxnType.AssetTransfer, "appl": pt.TxnType.ApplicationCall}
TNUM = {"pay": 1, "axfer": 4, "appl": 6}


def given_values(params, variant):
    """the argument values handed to MethodCall, in a plain form"""
    out = []
    for i, k in enumerate(params):
        if c09.is_txn(k):
            kind = k if k != "txn" else ("pay" if (i + variant) % 2 == 0 else "axfer")
            out.append(("txn", kind, 1000 + i if kind != "appl" else None))
        elif k == "account":
            # a literal address, the application's own address, or the outer transaction's sender
            out.append([("account", ADDR[0], "lit"), ("account", ADDR[1], "lit"), ("account", APP_ADDR, "app_addr"),
                        ("account", OUTER_SENDER, "txn_sender"), ("account", ADDR[2], "lit")][(i + 2 * variant) % 5])
        elif k == "asset":
            out.append(("asset", 1000 + ((i + variant) % 2)))
        elif k == "application":
            out.append(("application", [7, 88, 89][(i + variant) % 3]))
        else:
            out.append(("plain", c09.arg_value(k, i, variant)))
    return out


def build_program(sig, params, given, mode, extra):
    steps = []
    args = []
    for k, g in zip(params, given):
        if g[0] == "txn":
            kind, amt = g[1], g[2]
            if kind == "pay":
                args.append({pt.TxnField.type_enum: TXT[kind], pt.TxnField.amount: pt.Int(amt), pt.TxnField.receiver: pt.Bytes(ADDR[1])})
            elif kind == "axfer":
                args.append({pt.TxnField.type_enum: TXT[kind], pt.TxnField.asset_amount: pt.Int(amt), pt.TxnField.xfer_asset: pt.Int(5),
                             pt.TxnField.asset_receiver: pt.Bytes(ADDR[1])})
            else:
                args.append({pt.TxnField.type_enum: TXT[kind], pt.TxnField.application_id: pt.Int(55),
                             pt.TxnField.application_args: [pt.Bytes("inner")]})
        elif g[0] == "account":
            args.append({"lit": lambda: pt.Bytes(g[1]), "app_addr": pt.Global.current_application_address,
                         "txn_sender": pt.Txn.sender}[g[2]]())
        elif g[0] in ("asset", "application"):
            args.append(pt.Int(g[1]))
        else:
            if mode == "abi":
                args.append(abi_gen.make(k, g[1], "lit", steps))
            else:
                args.append(pt.Bytes(abi_gen.encode(k, g[1])))
    xf = None
    if extra == "fee":
        xf = {pt.TxnField.fee: pt.Int(0)}
    elif extra == "note":
        xf = {pt.TxnField.note: pt.Bytes("n"), pt.TxnField.fee: pt.Int(2000)}
    elif extra == "accounts":
        # array fields given as extra fields are appended BEHIND the entries the call itself adds
        xf = {pt.TxnField.accounts: [pt.Bytes(ADDR[2])]}
    elif extra == "sender":
        # the inner call is sent by another account the application controls (rekeyed to it)
        xf = {pt.TxnField.sender: pt.Bytes(ADDR[1])}
    elif extra == "refs":
        xf = {pt.TxnField.assets: [pt.Int(42)], pt.TxnField.applications: [pt.Int(43)], pt.TxnField.accounts: [pt.Bytes(ADDR[0])]}
    call = pt.InnerTxnBuilder.ExecuteMethodCall(app_id=pt.Int(9), method_signature=sig, args=args, extra_fields=xf)
    return pt.Seq(*steps, call, pt.Int(1))


def decode_call(sig, params, inner_group, sender=None, current_app=7):
    """independent callee-side decoder -> list of decoded argument values, or raises ValueError"""
    ntx = sum(1 for k in params if c09.is_txn(k))
    if len(inner_group) != ntx + 1:
        raise ValueError("inner group has %d transactions, expected %d" % (len(inner_group), ntx + 1))
    call = inner_group[-1]
    if sender is None:
        # account index 0 is the sender of the CALL: the application itself unless the call names another sender
        sender = call.get("Sender", APP_ADDR)
    if call.get("TypeEnum") != 6:
        raise ValueError("last inner transaction is not an application call")
    app_args = call.get("ApplicationArgs", [])
    if len(app_args) > 16:
        raise ValueError("%d application arguments" % len(app_args))
    if not app_args or app_args[0] != c09.sdkabi.Method.from_signature(sig).get_selector():
        raise ValueError("first application argument is not the selector")
    nontx = [k for k in params if not c09.is_txn(k)]
    types = []
    for k in nontx:
        types.append(sdkabi.ABIType.from_string("uint8") if c09.is_ref(k) else abi_gen.sdk_type(k))
    raw = []
    if len(nontx) <= 15:
        if len(app_args) != 1 + len(nontx):
            raise ValueError("%d application arguments for %d non-transaction parameters" % (len(app_args) - 1, len(nontx)))
        raw = [t.decode(a) for t, a in zip(types, app_args[1:])]
    else:
        if len(app_args) != 16:
            raise ValueError("%d application arguments, expected 16 (arguments 15.. packed)" % len(app_args))
        raw = [t.decode(a) for t, a in zip(types[:14], app_args[1:15])]
        raw += sdkabi.TupleType(types[14:]).decode(app_args[15])
    out = []
    it = iter(raw)
    tpos = 0
    for k in params:
        if c09.is_txn(k):
            t = inner_group[tpos]
            tpos += 1
            out.append(("txn", {1: "pay", 4: "axfer", 6: "appl"}.get(t.get("TypeEnum")), t.get("Amount", t.get("AssetAmount"))))
            continue
        v = next(it)
        if k == "account":
            accts = call.get("Accounts", [])
            if v == 0:
                out.append(("account", sender))
            elif v - 1 < len(accts):
                out.append(("account", accts[v - 1]))
            else:
                raise ValueError("account index %d outside the foreign accounts %d" % (v, len(accts)))
        elif k == "application":
            apps = call.get("Applications", [])
            if v == 0:
                out.append(("application", current_app))
            elif v - 1 < len(apps):
                out.append(("application", apps[v - 1]))
            else:
                raise ValueError("application index %d outside the foreign apps" % v)
        elif k == "asset":
            assets = call.get("Assets", [])
            if v < len(assets):
                out.append(("asset", assets[v]))
            else:
                raise ValueError("asset index %d outside the foreign assets" % v)
        else:
            out.append(("plain", from_sdk(k, v)))
    return out


def from_sdk(shape, v):
    if isinstance(shape, str):
        if shape == "string":
            return v.encode("utf-8")
        if shape == "address":
            return bytes(v) if not isinstance(v, str) else c09.sdkenc.decode_address(v)
        return v
    if shape[0] in ("sarr", "darr"):
        return [from_sdk(shape[1], x) for x in v]
    return [from_sdk(s, x) for s, x in zip(shape[1:], v)]


def check_case(case, out, versions):
    cnt, oc = out["counters"], out["outcomes"]
    params = case["params"]
    sig = c09.method_sig("meth", params, case.get("ret"))
    nontx = sum(1 for k in params if not c09.is_txn(k))
    for ver in versions:
        for variant in (0, 1):
            given = given_values(params, variant)
            all_extras = ["none", "fee", "note", "accounts", "refs", "sender"]
            has_ref = any(c09.is_ref(k) for k in params)
            for mode, extra in [(m, x) for m in ("abi", "expr")
                                for x in (all_extras if has_ref and m == "abi" else [all_extras[(variant + len(params)) % 6]])]:
                if variant == 1:
                    # another caller asked the public helper for this signature's types before and modified the list
                    # it was handed (it is a fresh list, legal to consume): the call's view of the signature must not move
                    try:
                        lst, _ret = pt.abi.type_specs_from_signature(sig)
                        lst.clear()
                        lst.append(pt.abi.Uint64TypeSpec())
                    except Exception:
                        pass
                try:
                    text = pt.compileTeal(build_program(sig, params, given, mode, extra), pt.Mode.Application, version=ver)
                except drive.PT_ERRORS as e:
                    oc["rejected"] = oc.get("rejected", 0) + 1
                    out["violations"].append({"driver": "build", "size": len(params), "title": "%s rejected: %s" % (sig, str(e)[:150]),
                                              "case": case, "version": ver, "variant": variant, "mode": mode,
                                              "features": {"why": "rejected", "nontxn_over_15": nontx > 15}})
                    continue
                except Exception as e:
                    out["violations"].append({"driver": "build", "size": len(params), "title": "%s crashed: %r" % (sig, e),
                                              "case": case, "version": ver, "variant": variant, "mode": mode,
                                              "features": {"why": "crash", "nontxn_over_15": nontx > 15}})
                    continue
                p = asm.assemble(text)
                res = interp.run(p, interp.Ctx(mode="A", group=[interp.default_txn()]), fuel=100000)
                cnt["traces_validated"] = cnt.get("traces_validated", 0) + 1
                oc[res.verdict] = oc.get(res.verdict, 0) + 1
                why = None
                if res.verdict != "APPROVE":
                    why = "program does not approve: %s %s (line %s)" % (res.verdict, res.why, res.line)
                else:
                    groups = [e[1] for e in res.effects if e[0] == "itxn"]
                    if len(groups) != 1:
                        why = "%d inner groups submitted" % len(groups)
                    else:
                        try:
                            got = decode_call(sig, params, groups[0])
                            want = [(g[0], g[1], g[2]) if g[0] == "txn" else (g[0], g[1]) for g in given]
                            if got != want:
                                for j, (a, b) in enumerate(zip(got, want)):
                                    if a != b:
                                        why = "argument %d decodes to %r, given %r" % (j, a, b)
                                        break
                        except Exception as e:
                            why = "callee-side decoding fails: %s" % (e,)
                        if why is None and extra != "none":
                            call = groups[0][-1]
                            if (extra == "fee" and call.get("Fee") != 0) or (extra == "note" and (call.get("Note") != b"n" or call.get("Fee") != 2000)):
                                why = "extra fields not set on the application call: %r" % ({k: call.get(k) for k in ("Fee", "Note")},)
                            elif extra == "sender" and call.get("Sender") != ADDR[1]:
                                why = "extra field sender not set on the application call: %r" % (call.get("Sender"),)
                            elif extra == "accounts" and (call.get("Accounts") or [None])[-1] != ADDR[2]:
                                why = "extra account is not the last foreign account: %r" % (call.get("Accounts"),)
                            elif extra == "refs" and ((call.get("Assets") or [None])[-1] != 42 or (call.get("Applications") or [None])[-1] != 43
                                                      or (call.get("Accounts") or [None])[-1] != ADDR[0]):
                                why = "extra foreign references are not the last entries: assets %r apps %r" % (call.get("Assets"), call.get("Applications"))
                if why:
                    out["violations"].append({
                        "driver": "call", "size": len(params), "title": "%s v%d variant %d %s: %s" % (sig, ver, variant, mode, why),
                        "case": case, "version": ver, "variant": variant, "mode": mode, "teal": text,
                        "features": {"why": why.split(":")[0][:30], "nontxn_over_15": nontx > 15}})


def build_forwarder(sig, params, options):
    """a Router whose only method takes the same (non-transaction) parameters as `sig` and hands the ABI values it
    received - reference values included, as the instances themselves - to an inner method call"""
    names = ["a%d" % i for i in range(len(params))]
    ann = {}
    for nm, k in zip(names, params):
        ann[nm] = c09.REF_KINDS[k] if c09.is_ref(k) else abi_gen.spec(k).annotation_type()
    ann["return"] = pt.Expr

    def impl(*args):
        return pt.InnerTxnBuilder.ExecuteMethodCall(app_id=pt.Int(9), method_signature=sig, args=list(args))
    ns = {"__impl": impl}
    exec("def relay(%s):\n    return __impl(%s)\n" % (", ".join(names), ", ".join(names)), ns)
    fn = ns["relay"]
    fn.__annotations__ = ann
    router = pt.Router("fwd", pt.BareCallActions(no_op=pt.OnCompleteAction.create_only(pt.Approve())),
                       clear_state=pt.Approve())
    router.add_method_handler(pt.ABIReturnSubroutine(fn))
    return router.compile_program(**options)[0]


def check_forward(case, out, versions):
    """the arguments of an OUTER method call (built by the client library) forwarded into an inner method call"""
    cnt, oc = out["counters"], out["outcomes"]
    params = case["params"]
    sig = c09.method_sig("meth", params, case.get("ret"))
    outer_sig = c09.method_sig("relay", params, None)
    for ver in versions:
        for oname, opts in (("default", {}), ("scratch_args", {"optimize": pt.OptimizeOptions(frame_pointers=False)}),
                            ("slots", {"optimize": pt.OptimizeOptions(scratch_slots=True)})):
            if oname == "scratch_args" and ver < 8:
                continue

            def viol(why, text=None):
                out["violations"].append({
                    "driver": "forward", "size": len(params), "title": "%s forwarded, v%d %s: %s" % (sig, ver, oname, why),
                    "case": case, "version": ver, "forward": oname, "teal": text,
                    "features": {"why": why.split(":")[0][:30], "driver": "forward"}})
            try:
                text = build_forwarder(sig, params, dict(opts, version=ver))
            except drive.PT_ERRORS as e:
                viol("rejected: %s" % (str(e)[:150],))
                continue
            except Exception as e:
                viol("crashed: %r" % (e,))
                continue
            pa = asm.assemble(text)
            for variant in (0, 1):
                try:
                    group, gi, expect = c09.build_group(outer_sig, params, variant)
                except Exception:
                    oc["client_error"] = oc.get("client_error", 0) + 1
                    continue
                res = interp.run(pa, interp.Ctx(mode="A", group=group, group_index=gi), fuel=100000)
                cnt["traces_validated"] = cnt.get("traces_validated", 0) + 1
                oc["fwd:" + res.verdict] = oc.get("fwd:" + res.verdict, 0) + 1
                if res.verdict != "APPROVE":
                    viol("program does not approve: %s %s (line %s)" % (res.verdict, res.why, res.line), text)
                    continue
                groups = [e[1] for e in res.effects if e[0] == "itxn"]
                if len(groups) != 1:
                    viol("%d inner groups submitted" % len(groups), text)
                    continue
                try:
                    got = decode_call(sig, params, groups[0])
                except Exception as e:
                    viol("callee-side decoding fails: %s" % (e,), text)
                    continue
                for j, (k, g, (_tag, _kind, want)) in enumerate(zip(params, got, expect)):
                    if k == "account":
                        have = g[1]
                    elif k in ("asset", "application"):
                        have = g[1].to_bytes(8, "big")
                    else:
                        have = abi_gen.encode(k, g[1])
                    if have != want:
                        viol("argument %d arrives as %r, the outer call carried %r" % (j, have.hex(), want.hex()), text)
                        break


def negative_cases(out):
    """ill-typed arguments must be rejected when the expression is built"""
    cnt = out["counters"]
    u = abi.Uint64()
    s = abi.String()
    bad = [
        ("f(string)void", [u]),
        ("f(uint64)void", [s]),
        ("f(uint64)void", []),
        ("f(uint64)void", [u, u]),
        ("f(pay)void", [{pt.TxnField.type_enum: pt.TxnType.AssetTransfer}]),
        ("f(pay)void", [{pt.TxnField.amount: pt.Int(1)}]),
        ("f(pay)void", [u]),
        ("f(account)void", [pt.Int(1)]),
        ("f(asset)void", [pt.Bytes("a")]),
        ("f(application)void", [pt.Bytes("a")]),
        ("f(uint64)void", [pt.Int(1)]),
        ("f(uint8[2])void", [abi.make(abi.StaticArray[abi.Uint8, pt.abi.Literal[3]]) if hasattr(pt.abi, "Literal") else s]),
    ]
    for sig, args in bad:
        cnt["traces_validated"] = cnt.get("traces_validated", 0) + 1
        try:
            pt.InnerTxnBuilder.MethodCall(app_id=pt.Int(1), method_signature=sig, args=args)
            out["violations"].append({"driver": "negative", "size": 1, "title": "ill-typed MethodCall accepted: %s with %r" % (sig, args),
                                      "case": {"sig": sig}, "features": {"why": "ill-typed accepted"}})
        except drive.PT_ERRORS:
            out["outcomes"]["neg_rejected"] = out["outcomes"].get("neg_rejected", 0) + 1
        except Exception as e:
            out["violations"].append({"driver": "negative", "size": 1, "title": "ill-typed MethodCall died with %r: %s" % (e, sig),
                                      "case": {"sig": sig}, "features": {"why": "crash"}})


_FIT_UNIVERSE = None


def fit_universe():
    """plain (non-reference, non-transaction) types of C19's universe"""
    global _FIT_UNIVERSE
    if _FIT_UNIVERSE is None:
        from . import c19
        _FIT_UNIVERSE = [t for t in c19.universe("quick") if c19.norm(t)[0] not in ("ref", "txn")]
    return _FIT_UNIVERSE


def fit_cases(ai, out):
    """a value of type A given for a plain parameter declared as B, for EVERY B of the universe: if the two
    types do not have the same ARC-4 layout the call must be rejected when it is built"""
    from . import c19
    U = fit_universe()
    a = U[ai]
    cnt, oc = out["counters"], out["outcomes"]
    for b in U:
        r = c19.method_call_accepts(a, b)
        if r is None:
            continue
        cnt["traces_validated"] = cnt.get("traces_validated", 0) + 1
        same = c19.same_layout(a, b)
        key = "fit:%s/%s" % ("same" if same else "different", "accepted" if r else "rejected")
        oc[key] = oc.get(key, 0) + 1
        if r and not same:
            out["violations"].append({
                "driver": "fit", "size": 1,
                "title": "MethodCall f(%s)void accepted an argument of type %s (different ARC-4 layout)" % (b, a),
                "case": {"fit_a": str(a), "fit_b": str(b)}, "features": {"why": "ill-typed accepted"}})
    # declared types that exist only as ARC-4 signature text (uint24, ufixed64x2, ...)
    for e in c19.EXOTIC:
        r = c19.method_call_accepts(a, e)
        if r is None:
            continue
        cnt["traces_validated"] = cnt.get("traces_validated", 0) + 1
        same = c19.norm(a) == c19.norm_sdk(c19.sdkabi.ABIType.from_string(e))
        key = "fit:%s/%s" % ("same" if same else "different", "accepted" if r else "rejected")
        oc[key] = oc.get(key, 0) + 1
        if r and not same:
            out["violations"].append({
                "driver": "fit", "size": 1,
                "title": "MethodCall f(%s)void accepted an argument of type %s (different ARC-4 layout)" % (e, a),
                "case": {"fit_a": str(a), "fit_b": e}, "features": {"why": "ill-typed accepted"}})
    cnt["states"] = cnt.get("states", 0) + 1
    cnt["transitions"] = cnt.get("transitions", 0) + len(U) + len(c19.EXOTIC)


def _worker(items, base):
    out = {"counters": {}, "outcomes": {}, "violations": [], "samples": []}
    for case in items:
        if case.get("negative"):
            negative_cases(out)
            continue
        if "fit" in case:
            fit_cases(case["fit"], out)
            continue
        check_case(case, out, _VERSIONS)
        if case["params"] and len(case["params"]) <= 6 and not any(c09.is_txn(k) for k in case["params"]):
            check_forward(case, out, _VERSIONS)
        out["counters"]["states"] = out["counters"].get("states", 0) + 1
        out["counters"]["transitions"] = out["counters"].get("transitions", 0) + max(1, len(case["params"]))
    if items and base % 53 == 0 and not items[0].get("negative") and "fit" not in items[0]:
        out["samples"].append({"signature": c09.method_sig("meth", items[0]["params"], items[0].get("ret")), "case": items[0]})
    return out


def run(tier):
    global _VERSIONS
    rep = common.Report(PID, tier)
    rep.rule = ("every method signature of C09's families (a state) x 2 value variants x {ABI value, pre-encoded Expr} "
                "arguments x extra-field settings x versions; the inner group recorded at itxn_submit is decoded callee-side")
    _VERSIONS = (6, 8) if tier == "quick" else (6, 7, 8, 10)
    items = [c for c in c09.cases(tier)]
    items.append({"negative": True, "params": []})
    rep.bounds["signatures"] = len(items) - 1
    nfit = len(fit_universe())
    items += [{"fit": i, "params": []} for i in range(nfit)]
    rep.bounds["fit_universe_types"] = nfit
    rep.bounds["fit_ordered_pairs"] = nfit * nfit
    rep.bounds["versions"] = list(_VERSIONS)
    for sh in common.pmap_shards(_worker, items, shard_size=3, order_seed=rep.seed):
        rep.merge(sh)
    rep.counters["distinct_nontrivial"] = rep.counters.get("states", 0)
    rep.assumptions = ["algosdk.abi codec as the callee-side decoder", "reference AVM inner-transaction model (<= 16 app args)"]
    if not rep.outcomes.get("APPROVE") or not rep.outcomes.get("neg_rejected"):
        raise common.MachineryError("vacuous: %r" % (rep.outcomes,))
    return rep.finish()


def replay(case):
    out = {"counters": {}, "outcomes": {}, "violations": [], "samples": []}
    if "fit_a" in case.get("case", {}):
        U = fit_universe()
        for i, t in enumerate(U):
            if str(t) == case["case"]["fit_a"]:
                fit_cases(i, out)
        out["violations"] = [v for v in out["violations"] if v["case"] == case["case"]]
    elif "params" not in case.get("case", {}):
        negative_cases(out)
    elif case.get("forward"):
        check_forward(case["case"], out, (case["version"],))
    else:
        check_case(case["case"], out, (case["version"],))
    for v in out["violations"][:5]:
        print("still violates:", v["title"][:300])
    return bool(out["violations"])
