"""C15 - source maps are faithful and never perturb the program.

(a) VLQ codec: every integer of a range alone and every tuple up to length 4 over a boundary
    alphabet round-trips;  (b) R3SourceMap: every small map round-trips through its
    Revision-3 JSON;  (c) recipes rendered as *generated Python source files* (one constructor
    per line, a unique marker constant per line, two modules, optionally thousands of leading
    blank lines) are compiled with with_sourcemap=True under every annotate option in fresh
    interpreter processes (source-map gate on) and with the gate off.
"""
import itertools
import json
import os
import shutil
import subprocess
import sys
import tempfile

from .. import common
from ..avm import asm
from ..recipe import gen_ctrl, gen_sub, render

PID = "C15"

DRIVER = r'''
import json, sys, os, importlib
GATE = sys.argv[1] == "on"
if GATE:
    from feature_gates import FeatureGates
    FeatureGates.set_sourcemap_enabled(True)
import pyteal as pt
sys.path.insert(0, os.path.dirname(os.path.abspath(__file__)))
cases = json.load(open(sys.argv[2]))
out = []
KW = {"off": dict(annotate_teal=False),
      "concise": dict(annotate_teal=True, annotate_teal_concise=True),
      "full": dict(annotate_teal=True, annotate_teal_concise=False),
      "headers": dict(annotate_teal=True, annotate_teal_headers=True, annotate_teal_concise=True)}


def describe(teal, sm):
    r3 = sm.r3_sourcemap
    entries = [[l, col, m.source, m.source_line, m.source_column] for (l, col), m in r3.entries.items()]
    js = r3.to_json()
    back = pt.R3SourceMap.from_json(js)
    entries_back = [[l, col, m.source, m.source_line, m.source_column] for (l, col), m in back.entries.items()]
    return {"teal": teal, "entries": entries, "entries_back": entries_back,
            "source_root": js.get("sourceRoot"), "sources": js.get("sources"), "mappings": js.get("mappings"),
            "annotated": sm.annotated_teal}


for c in cases:
    if c.get("router"):
        # a Router: two programs (approval "a", clear "c"), each with its own map
        recs = {"a": {"id": "%sa" % c["id"]}, "c": {"id": "%sc" % c["id"]}}
        try:
            mod = importlib.import_module(c["module"])
            for version in c["versions"]:
                key = "v%d" % version
                r0 = mod.build().compile(version=version)
                recs["a"][key] = {"plain": r0.approval_teal}
                recs["c"][key] = {"plain": r0.clear_teal}
                if not GATE:
                    continue
                for ann in c["annotate"]:
                    try:
                        res = mod.build().compile(version=version, with_sourcemaps=True, **KW[ann])
                    except Exception as e:
                        for t in "ac":
                            recs[t][key][ann] = {"error": "%s: %s" % (type(e).__name__, str(e)[:300])}
                        continue
                    recs["a"][key][ann] = describe(res.approval_teal, res.approval_sourcemap)
                    recs["c"][key][ann] = describe(res.clear_teal, res.clear_sourcemap)
        except Exception as e:
            for t in "ac":
                recs[t]["fatal"] = "%s: %s" % (type(e).__name__, str(e)[:300])
        out.append(recs["a"])
        out.append(recs["c"])
        continue
    rec = {"id": c["id"]}
    try:
        mod = importlib.import_module(c["module"])
        for version in c["versions"]:
            key = "v%d" % version
            # compile options that change the text (constant assembly, the type-tracking pragma) must act alike
            # with and without a source map
            ckw = dict(c.get("compile_kw") or {})
            plain = pt.compileTeal(mod.program(), pt.Mode.Application, version=version, **ckw)
            rec[key] = {"plain": plain}
            if not GATE:
                continue
            for ann in c["annotate"]:
                okw = dict(ckw)
                if "assembleConstants" in okw:
                    okw["assemble_constants"] = okw.pop("assembleConstants")
                comp = pt.Compilation(mod.program(), pt.Mode.Application, version=version, **okw)
                try:
                    res = comp.compile(with_sourcemap=True, **KW[ann])
                except Exception as e:
                    rec[key][ann] = {"error": "%s: %s" % (type(e).__name__, str(e)[:300])}
                    continue
                rec[key][ann] = describe(res.teal, res.sourcemap)
    except Exception as e:
        rec["fatal"] = "%s: %s" % (type(e).__name__, str(e)[:300])
    out.append(rec)
json.dump(out, open(sys.argv[3], "w"))
'''


# ------------------------------------------------------------------ independent Source Map Revision 3 codec
_B64 = "ABCDEFGHIJKLMNOPQRSTUVWXYZabcdefghijklmnopqrstuvwxyz0123456789+/"


def my_vlq_encode(*values):
    out = []
    for v in values:
        x = ((-v) << 1) | 1 if v < 0 else v << 1
        while True:
            d = x & 31
            x >>= 5
            out.append(_B64[d | (32 if x else 0)])
            if not x:
                break
    return "".join(out)


def my_vlq_decode(s):
    vals, shift, acc = [], 0, 0
    for ch in s:
        d = _B64.index(ch)
        acc |= (d & 31) << shift
        if d & 32:
            shift += 5
        else:
            vals.append(-(acc >> 1) if acc & 1 else acc >> 1)
            shift, acc = 0, 0
    if shift:
        raise ValueError("truncated VLQ")
    return vals


def my_r3_decode(js):
    """Source Map Revision 3 'mappings' -> {(line, column): (source, source_line, source_column)}; every field of
    a segment is a delta: the column restarts at 0 on every line, the other three run through the whole map"""
    sources = js.get("sources", [])
    out = {}
    si = sl = sc = 0
    for line, segs in enumerate(js["mappings"].split(";")):
        col = 0
        if not segs:
            continue
        for seg in segs.split(","):
            f = my_vlq_decode(seg)
            col += f[0]
            if len(f) >= 4:
                si += f[1]
                sl += f[2]
                sc += f[3]
                out[(line, col)] = (sources[si], sl, sc)
            else:
                out[(line, col)] = (None, None, None)
    return out


# ------------------------------------------------------------------ (a) (b)
def codec_checks(rep, tier):
    from pyteal.compiler.sourcemap import _base64vlq_decode, _base64vlq_encode, R3SourceMap, R3SourceMapping
    viol = []
    lim = 70000 if tier == "quick" else 300000
    for v in range(-lim, lim + 1):
        rep.add("traces_validated")
        enc = _base64vlq_encode(v)
        if _base64vlq_decode(enc) != [v]:
            viol.append({"driver": "vlq", "size": 1, "title": "VLQ round trip of %d gives %r" % (v, _base64vlq_decode(enc)),
                         "value": [v], "features": {"why": "vlq"}})
        elif enc != my_vlq_encode(v) or _base64vlq_decode(my_vlq_encode(v)) != [v]:
            viol.append({"driver": "vlq", "size": 1, "title": "VLQ of %d is %r, the Revision-3 encoding is %r" % (v, enc, my_vlq_encode(v)),
                         "value": [v], "independent": True, "features": {"why": "vlq vs spec"}})
    alpha = [0, 1, -1, 15, -15, 16, -16, 31, -31, 32, -32, 1023, -1023, 1024, -1024, 1 << 20, -(1 << 20)]
    for n in range(1, 5 if tier == "thorough" else 4):
        for t in itertools.product(alpha, repeat=n):
            rep.add("traces_validated")
            if _base64vlq_decode(_base64vlq_encode(*t)) != list(t):
                viol.append({"driver": "vlq", "size": n, "title": "VLQ round trip of %r fails" % (t,), "value": list(t), "features": {"why": "vlq"}})
            elif _base64vlq_encode(*t) != my_vlq_encode(*t):
                viol.append({"driver": "vlq", "size": n, "title": "VLQ of %r differs from the Revision-3 encoding" % (t,), "value": list(t),
                             "independent": True, "features": {"why": "vlq vs spec"}})
    rep.add("states", 2 * lim + 1)
    # (b) every map with <= 3 target lines x <= 2 columns per line over small alphabets of sources / positions
    srcs = [None, "a.py", "b.py"]
    cols_alpha = [(), (0,), (3,), (0, 5)]
    pos_alpha = [(0, 0), (2, 7), (40, 1)]
    nmaps = 0
    for line_cols in itertools.product(cols_alpha, repeat=3 if tier == "thorough" else 2):
        cells = [(l, c) for l, cs in enumerate(line_cols) for c in cs]
        if not cells:
            continue
        for assign in itertools.product(range(len(srcs) * len(pos_alpha)), repeat=len(cells)):
            entries = {}
            for (l, c), a in zip(cells, assign):
                s = srcs[a % len(srcs)]
                sl, sc = pos_alpha[a // len(srcs)]
                entries[(l, c)] = R3SourceMapping(line=l, column=c, source=s, source_line=sl if s else None,
                                                  source_column=sc if s else None)
            m = R3SourceMap(filename="t.teal", source_root="/x", entries=entries, index=[tuple(cs) for cs in line_cols])
            nmaps += 1
            rep.add("traces_validated")
            try:
                js = m.to_json()
                back = R3SourceMap.from_json(js)
                got = {k: (v.source, v.source_line, v.source_column) for k, v in back.entries.items()}
                want = {k: (v.source, v.source_line, v.source_column) for k, v in entries.items()}
                ok = got == want
                if ok:
                    # the JSON must also mean the same under the Revision-3 rules, decoded independently
                    got = my_r3_decode(js)
                    ok = got == want
            except Exception as e:
                ok, got = False, repr(e)
            if not ok:
                viol.append({"driver": "r3", "size": len(cells), "title": "R3 JSON round trip changes the map: %r -> %r" % (want, got),
                             "map": [[list(k), list(v)] for k, v in want.items()], "features": {"why": "r3 roundtrip"}})
    rep.add("states", nmaps)
    rep.bounds["r3_maps"] = nmaps
    rep.bounds["vlq_range"] = [-lim, lim]
    return viol


# ------------------------------------------------------------------ (c)
def strip_comment(line):
    i = line.find("//")
    return (line[:i] if i >= 0 else line).rstrip()


def check_result(case, files, markers, on, off, viol, rep):
    cid = case["id"]
    if "fatal" in on or "fatal" in off:
        viol.append({"driver": "programs", "size": case["size"], "title": "case %s: driver failed: %s" % (cid, on.get("fatal") or off.get("fatal")),
                     "case": case, "features": {"why": "fatal"}})
        return
    for version in case["versions"]:
        key = "v%d" % version
        plain_on = on[key]["plain"]
        plain_off = off[key]["plain"]
        rep.add("traces_validated")
        if plain_on != plain_off:
            viol.append({"driver": "programs", "size": case["size"], "title": "case %s v%d: TEAL differs when the source-map gate is enabled" % (cid, version),
                         "case": case, "files": files, "features": {"why": "gate perturbs teal"}})
            continue
        nlines = len(plain_on.split("\n"))
        marker_lines = {}
        for i, l in enumerate(plain_on.split("\n")):
            parts = l.split()
            val = None
            if len(parts) >= 2 and parts[0] in ("int", "pushint") and parts[1].isdigit() and (len(parts) == 2 or parts[2] == "//"):
                val = int(parts[1])
            elif parts and parts[0].startswith("intc") and "//" in parts and parts[-1].isdigit():
                val = int(parts[-1])      # a constant-block load carries its value as a comment
            if val in markers:
                marker_lines.setdefault(val, []).append(i)
        for ann in case["annotate"]:
            r = on[key].get(ann)
            rep.add("traces_validated")

            def bad(why, feats=None):
                viol.append({"driver": "programs", "size": case["size"], "title": "case %s v%d annotate=%s: %s" % (cid, version, ann, why),
                             "case": case, "files": files, "annotate": ann, "version": version,
                             "features": dict(feats or {}, why=why.split(":")[0][:40])})
            if r is None or "error" in r:
                bad("compile with source map failed: %s" % (r or {}).get("error"))
                continue
            if r["teal"] != plain_on:
                bad("TEAL with source map differs from TEAL without")
                continue
            ent = r["entries"]
            lines_seen = [e[0] for e in ent]
            if lines_seen != list(range(nlines)) or any(e[1] != 0 for e in ent):
                bad("map entries do not cover every TEAL line exactly once in order: %d entries for %d lines" % (len(ent), nlines))
                continue
            root = r["source_root"] or ""
            for l, c, src, sl, sc in ent:
                if src is None:
                    bad("TEAL line %d has no source" % l)
                    break
                path = src if os.path.isabs(src) else os.path.join(root, src)
                base = os.path.basename(path)
                if base in files:
                    n = files[base].count("\n") + 1
                elif os.path.exists(path):
                    n = sum(1 for _ in open(path, errors="replace"))
                else:
                    bad("TEAL line %d is attributed to a file that does not exist: %s" % (l, path))
                    break
                if sl is None or not (0 <= sl < n):
                    bad("TEAL line %d is attributed to line %r of %s which has %d lines" % (l, sl, base, n))
                    break
            else:
                # marker attribution
                for m, tls in marker_lines.items():
                    # a constant written on several lines: its k-th load (in TEAL order) belongs to its k-th line
                    locs = markers[m] if isinstance(markers[m], list) else [markers[m]] * len(tls)
                    if len(locs) != len(tls):
                        bad("constant %d is written %d times but loaded on %d TEAL lines" % (m, len(locs), len(tls)))
                        break
                    for tl, (f, line1) in zip(tls, locs):
                        e = ent[tl]
                        if os.path.basename(e[2] or "") != f or e[3] != line1 - 1:
                            bad("constant %d written on %s:%d is attributed to %s:%s" % (m, f, line1, os.path.basename(e[2] or ""), (e[3] + 1) if e[3] is not None else None),
                                feats={"leading_blank": case.get("leading_blank", 0),
                                       "user_line_carries_T2PT_marker": "T2PT" in (case.get("line_comment") or ""),
                                       "attributed_to_same_file": os.path.basename(e[2] or "") == f})
                            break
                    else:
                        continue
                    break
                if r["entries_back"] != ent:
                    bad("Revision-3 JSON does not decode back to the same associations")
                else:
                    try:
                        mine = my_r3_decode({"sources": r["sources"], "mappings": r["mappings"]})
                    except Exception as e:
                        mine = repr(e)
                    want = {(l, c): (src, sl, sc) for l, c, src, sl, sc in ent}
                    if mine != want:
                        bad("Revision-3 JSON, decoded by the Revision-3 rules, gives other associations than the map holds")
                if ann != "off":
                    a = [strip_comment(x) for x in (r["annotated"] or "").split("\n")]
                    b = [strip_comment(x) for x in plain_on.split("\n")]
                    a = [x for x in a if x]
                    b = [x for x in b if x]
                    if a != b:
                        bad("annotated TEAL with comments removed differs from the plain TEAL")


# Python comments put behind the marker constants of the generated files: source text that looks like an import
# of pyteal, a compiler-internal marker, a compile call, a definition - the line is still the user's line
LINE_COMMENTS = [None, "import pyteal", "from pyteal import Int as import_pyteal", "T2PT1", "compileTeal(program(), mode) import . pyteal",
                 "def program(): return pyteal", None]


def router_configs():
    """bare no-op action (absent / present) x number of methods (0..2) x clear-state action kind"""
    return [{"bare": b, "methods": m, "clear": c} for b in (False, True) for m in (0, 1, 2)
            for c in ("approve", "seq", "sub") if b or m]


def router_module(mod, cfg, marker_base):
    """-> (source text, {marker constant: (file name, 1-based line)}); one marker constant per action"""
    L = ["import pyteal as pt", "", "", "def build():"]
    markers = {}
    nxt = [marker_base]

    def mark():
        nxt[0] += 1
        return nxt[0]

    def emit(line, m=None):
        L.append(line)
        if m is not None:
            markers[m] = (mod + ".py", len(L))
    if cfg["clear"] == "sub":
        m = mark()
        emit("    @pt.Subroutine(pt.TealType.none)")
        emit("    def on_clear():")
        emit("        return pt.Seq(")
        emit("            pt.Pop(pt.Int(%d))," % m, m)
        emit("            pt.Approve(),")
        emit("        )")
        clear = "on_clear"
    elif cfg["clear"] == "seq":
        m = mark()
        emit("    clear = pt.Seq(")
        emit("        pt.Pop(pt.Int(%d))," % m, m)
        emit("        pt.Approve(),")
        emit("    )")
        clear = "clear"
    else:
        clear = "pt.Approve()"
    if cfg["bare"]:
        m = mark()
        emit("    bare = pt.BareCallActions(no_op=pt.OnCompleteAction.create_only(pt.Seq(")
        emit("        pt.Pop(pt.Int(%d))," % m, m)
        emit("        pt.Approve(),")
        emit("    )))")
    else:
        emit("    bare = None")
    emit("    router = pt.Router(%r, bare, clear_state=%s)" % (mod, clear))
    for k in range(cfg["methods"]):
        m = mark()
        emit("")
        emit("    @router.method")
        emit("    def meth%d(a: pt.abi.Uint64, *, output: pt.abi.Uint64) -> pt.Expr:" % k)
        emit("        return pt.Seq(")
        emit("            pt.Log(pt.Itob(pt.Int(%d)))," % m, m)
        emit("            output.set(a.get() + pt.Int(%d))," % (k + 1))
        emit("        )")
    emit("    return router")
    return "\n".join(L) + "\n", markers


def population_module(mod, k, reps, marker_base, small=False):
    """k distinct constants, each written on `reps` lines of its own (round robin): with assembleConstants they
    are loaded through the constant block (intc_0..3, intc N, pushint for small ones); every load belongs to the
    line that wrote it"""
    L = ["import pyteal as pt", "", "", "def program():", "    return pt.Seq("]
    markers = {}
    vals = [(marker_base + i) if not (small and i % 2) else (i + 2) for i in range(k)]
    for _r in range(reps):
        for v in vals:
            L.append("        pt.Pop(pt.Int(%d))," % v)
            if v >= 1000:
                markers.setdefault(v, []).append((mod + ".py", len(L)))
    L.append("        pt.Int(1),")
    L.append("    )")
    return "\n".join(L) + "\n", markers


def program_cases(tier):
    cases = []
    g = gen_ctrl.Grammar()
    k = 0
    nmax = 2 if tier == "quick" else 3
    for n, b in g.programs(nmax):
        if gen_ctrl.has_unreachable(b):
            continue
        cases.append((n, gen_ctrl.make_program(b, "implicit")))
    for s, p, _i in gen_sub.programs("quick"):
        cases.append((s, p))
    if tier == "quick":
        # breadth-first prefix plus every 4th of the rest (stated cap)
        head, rest = cases[:150], cases[150:]
        cases = head + rest[::4]
    return cases


def run(tier):
    rep = common.Report(PID, tier)
    rep.rule = ("(a) all integers of the range and all tuples <= 4 over the boundary alphabet through the VLQ codec; (b) every "
                "R3 map with <= 2 (3) lines x <= 2 columns over 3 sources x 3 positions; (c) recipes rendered as generated "
                "Python source files (two modules, unique marker per line, one variant with 3000 leading blank lines) "
                "compiled with a source map under every annotate option in fresh interpreters with the gate on and off")
    viol = codec_checks(rep, tier)
    cases = program_cases(tier)
    if tier == "quick":
        rep.cap("quick tier: control-flow recipes <= 2 nodes and a BFS prefix + every 4th of the call-graph recipes")
    rep.bounds["programs"] = len(cases)
    scratch = tempfile.mkdtemp(prefix="vf15_")
    try:
        with open(os.path.join(scratch, "driver.py"), "w") as fh:
            fh.write(DRIVER)
        jobs = common.ncpu()
        batches = [[] for _ in range(jobs)]
        meta = {}
        for idx, (size, prog) in enumerate(cases):
            blank = 3000 if idx % 11 == 3 else 0
            mod_a, mod_b = "gen_a_%d" % idx, "gen_b_%d" % idx
            comment = LINE_COMMENTS[idx % len(LINE_COMMENTS)]
            rr = render.Renderer(prog, mod_a, mod_b, leading_blank=blank, marker_base=100000, line_comment=comment)
            try:
                files = rr.render()
            except KeyError as e:
                rep.add("not_renderable")
                continue
            for fn, text in files.items():
                with open(os.path.join(scratch, fn), "w") as fh:
                    fh.write(text)
            versions = [6, 8] if prog.get("subs") else [6]
            ann = ["off", "concise"] if tier == "quick" and idx % 5 else ["off", "concise", "full", "headers"]
            case = {"id": idx, "module": mod_a, "versions": versions, "annotate": ann, "size": size, "leading_blank": blank,
                    "recipe": prog, "line_comment": comment}
            meta[idx] = (case, files, rr.markers)
            ckw = [None, {"assembly_type_track": False}, {"assembleConstants": True}, None,
                   {"assembleConstants": True, "assembly_type_track": False}][idx % 5]
            case["compile_kw"] = ckw
            batches[idx % jobs].append({"id": idx, "module": mod_a, "versions": versions, "annotate": ann, "compile_kw": ckw})
        # routers: approval and clear-state program each come with their own map
        for k, cfg_r in enumerate(router_configs()):
            rid = 900000 + k
            mod = "gen_router_%d" % k
            text, markers = router_module(mod, cfg_r, 700000 + 100 * k)
            with open(os.path.join(scratch, mod + ".py"), "w") as fh:
                fh.write(text)
            ann = ["off", "concise"] if tier == "quick" and k % 4 else ["off", "concise", "full", "headers"]
            for tag in "ac":
                case = {"id": "%d%s" % (rid, tag), "module": mod, "versions": [6, 8], "annotate": ann, "size": 3,
                        "leading_blank": 0, "router": cfg_r, "program": "approval" if tag == "a" else "clear"}
                meta[case["id"]] = (case, {mod + ".py": text}, markers)
            batches[k % jobs].append({"id": rid, "module": mod, "versions": [6, 8], "annotate": ann, "router": True})
        rep.bounds["routers"] = len(router_configs())
        # constant populations: repeated constants through the constant assembler
        npop = 0
        for k, reps, small in ((5, 2, False), (6, 2, False), (7, 3, False), (9, 2, True), (6, 1, False)):
            for ckw in ({"assembleConstants": True}, None, {"assembleConstants": True, "assembly_type_track": False}):
                pid_ = 950000 + npop
                mod = "gen_pop_%d" % npop
                text, markers = population_module(mod, k, reps, 800000 + 100 * npop, small)
                with open(os.path.join(scratch, mod + ".py"), "w") as fh:
                    fh.write(text)
                ann = ["off", "concise", "full", "headers"]
                case = {"id": pid_, "module": mod, "versions": [6, 8], "annotate": ann, "size": k * reps, "leading_blank": 0,
                        "population": [k, reps, small], "compile_kw": ckw}
                meta[pid_] = (case, {mod + ".py": text}, markers)
                batches[npop % jobs].append({"id": pid_, "module": mod, "versions": [6, 8], "annotate": ann, "compile_kw": ckw})
                npop += 1
        rep.bounds["constant_population_modules"] = npop
        procs = []
        for bi, batch in enumerate(batches):
            if not batch:
                continue
            cj = os.path.join(scratch, "cases_%d.json" % bi)
            json.dump(batch, open(cj, "w"))
            for gate in ("on", "off"):
                outp = os.path.join(scratch, "out_%d_%s.json" % (bi, gate))
                env = dict(os.environ, PYTHONHASHSEED="0", PYTHONDONTWRITEBYTECODE="1")
                procs.append((bi, gate, outp, subprocess.Popen(["/venv/bin/python", os.path.join(scratch, "driver.py"), gate, cj, outp],
                                                               cwd=scratch, env=env, stdout=subprocess.PIPE, stderr=subprocess.PIPE)))
        results = {}
        for bi, gate, outp, p in procs:
            so, se = p.communicate()
            if p.returncode != 0 or not os.path.exists(outp):
                raise common.MachineryError("C15 driver (gate %s) failed: %s" % (gate, se.decode()[-2000:]))
            for rec in json.load(open(outp)):
                results.setdefault(rec["id"], {})[gate] = rec
        for idx, (case, files, markers) in meta.items():
            r = results.get(idx, {})
            if "on" not in r or "off" not in r:
                raise common.MachineryError("C15: missing result for case %s" % idx)
            check_result(case, files, markers, r["on"], r["off"], viol, rep)
            rep.add("states")
            rep.add("transitions", case["size"])
            if len(rep.samples) < 2:
                rep.samples.append({"files": {k: v[-600:] for k, v in files.items()}, "markers": {str(k): list(v) for k, v in list(markers.items())[:4]}})
    finally:
        shutil.rmtree(scratch, ignore_errors=True)
    rep.violations = viol
    rep.counters["distinct_nontrivial"] = rep.counters.get("states", 0)
    rep.assumptions = ["PC-based source maps (algod) are out of scope", "the generated files live in a scratch directory that is removed afterwards"]
    return rep.finish()


def replay(case):
    """re-render and re-run one program case (or re-check a codec value)"""
    if "value" in case:
        from pyteal.compiler.sourcemap import _base64vlq_decode, _base64vlq_encode
        return _base64vlq_decode(_base64vlq_encode(*case["value"])) != list(case["value"])
    if "case" not in case:
        return False
    c = case["case"]
    scratch = tempfile.mkdtemp(prefix="vf15r_")
    try:
        open(os.path.join(scratch, "driver.py"), "w").write(DRIVER)
        if "router" in c:
            text, markers = router_module(c["module"], c["router"], 700000)
            open(os.path.join(scratch, c["module"] + ".py"), "w").write(text)
            cj = os.path.join(scratch, "cases.json")
            json.dump([{"id": int(str(c["id"])[:-1]), "module": c["module"], "versions": c["versions"], "annotate": c["annotate"],
                        "router": True}], open(cj, "w"))
            res = {}
            for gate in ("on", "off"):
                outp = os.path.join(scratch, "out_%s.json" % gate)
                subprocess.run(["/venv/bin/python", os.path.join(scratch, "driver.py"), gate, cj, outp], cwd=scratch, check=True,
                               env=dict(os.environ, PYTHONHASHSEED="0", PYTHONDONTWRITEBYTECODE="1"))
                res[gate] = [r for r in json.load(open(outp)) if r["id"] == c["id"]][0]
            viol = []
            check_result(c, {c["module"] + ".py": text}, markers, res["on"], res["off"], viol, common.Report(PID, "quick"))
            for v in viol[:5]:
                print("still violates:", v["title"][:300])
            return bool(viol)
        if "population" in c:
            k, reps, small = c["population"]
            text, markers = population_module(c["module"], k, reps, 800000 + 100 * (c["id"] - 950000), small)
            open(os.path.join(scratch, c["module"] + ".py"), "w").write(text)
            cj = os.path.join(scratch, "cases.json")
            json.dump([{"id": c["id"], "module": c["module"], "versions": c["versions"], "annotate": c["annotate"],
                        "compile_kw": c.get("compile_kw")}], open(cj, "w"))
            res = {}
            for gate in ("on", "off"):
                outp = os.path.join(scratch, "out_%s.json" % gate)
                subprocess.run(["/venv/bin/python", os.path.join(scratch, "driver.py"), gate, cj, outp], cwd=scratch, check=True,
                               env=dict(os.environ, PYTHONHASHSEED="0", PYTHONDONTWRITEBYTECODE="1"))
                res[gate] = json.load(open(outp))[0]
            viol = []
            check_result(c, {c["module"] + ".py": text}, markers, res["on"], res["off"], viol, common.Report(PID, "quick"))
            for v in viol[:5]:
                print("still violates:", v["title"][:300])
            return bool(viol)
        rr = render.Renderer(c["recipe"], c["module"], c["module"].replace("gen_a", "gen_b"), leading_blank=c.get("leading_blank", 0),
                             line_comment=c.get("line_comment"))
        files = rr.render()
        for fn, text in files.items():
            open(os.path.join(scratch, fn), "w").write(text)
        cj = os.path.join(scratch, "cases.json")
        json.dump([{"id": c["id"], "module": c["module"], "versions": c["versions"], "annotate": c["annotate"],
                    "compile_kw": c.get("compile_kw")}], open(cj, "w"))
        res = {}
        for gate in ("on", "off"):
            outp = os.path.join(scratch, "out_%s.json" % gate)
            subprocess.run(["/venv/bin/python", os.path.join(scratch, "driver.py"), gate, cj, outp], cwd=scratch, check=True,
                           env=dict(os.environ, PYTHONHASHSEED="0", PYTHONDONTWRITEBYTECODE="1"))
            res[gate] = json.load(open(outp))[0]
        viol = []
        rep = common.Report(PID, "quick")
        check_result(c, files, rr.markers, res["on"], res["off"], viol, rep)
        for v in viol[:5]:
            print("still violates:", v["title"][:300])
        return bool(viol)
    finally:
        shutil.rmtree(scratch, ignore_errors=True)
