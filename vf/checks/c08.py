"""C08 - Router dispatches a call to its handler iff the registration allows it.

Router configurations are enumerated exhaustively: (a) one method with every MethodConfig
over the five approval OnCompletes, (b) every bare-call configuration beside one method,
(c) every ordered pair of methods over a reduced config alphabet with reduced bare sets,
(d) empty router and clear-state action variants.  Every router is compiled with the real
Router and its approval / clear programs are executed on the full call alphabet (selector
or none, OnCompletion, create/non-create).  Oracle: a table lookup written from the ARC-4 /
Router documentation.
"""
import hashlib
import itertools

import pyteal as pt

from .. import common, drive
from ..avm import asm, interp

PID = "C08"
OCS = ["no_op", "opt_in", "close_out", "update_application", "delete_application"]
OC_NUM = {"no_op": 0, "opt_in": 1, "close_out": 2, "clear_state": 3, "update_application": 4, "delete_application": 5}
NEVER, CALL, CREATE, ALL = 0, 1, 2, 3
CC = {0: pt.CallConfig.NEVER, 1: pt.CallConfig.CALL, 2: pt.CallConfig.CREATE, 3: pt.CallConfig.ALL}
_VERSIONS = (6, 8, 10)


def selector(sig):
    h = hashlib.new("sha512_256")
    h.update(sig.encode())
    return h.digest()[:4]


def plain_fn(name, marker):
    def impl():
        return pt.Log(pt.Bytes(marker))
    impl.__name__ = name
    impl.__annotations__ = {"return": pt.Expr}
    return impl


def make_method(name, marker):
    return pt.ABIReturnSubroutine(plain_fn(name, marker))


def build_router(case):
    bare_kw = {}
    for oc, cc in case.get("bare", {}).items():
        if cc != NEVER:
            bare_kw[oc] = pt.OnCompleteAction(action=pt.Seq(pt.Log(pt.Bytes("B" + oc)), pt.Approve()), call_config=CC[cc])
    clear = case.get("clear", "none")
    clear_action = None
    if clear == "approve":
        clear_action = pt.Approve()
    elif clear == "reject":
        clear_action = pt.Reject()
    elif clear == "log":
        clear_action = pt.Seq(pt.Log(pt.Bytes("CLEAR")), pt.Approve())
    elif clear == "sub":
        @pt.Subroutine(pt.TealType.none)
        def on_clear():
            return pt.Seq(pt.Log(pt.Bytes("CLEAR")), pt.Approve())
        clear_action = on_clear
    elif clear == "abisub":
        @pt.ABIReturnSubroutine
        def on_clear_abi() -> pt.Expr:
            return pt.Log(pt.Bytes("CLEAR"))
        clear_action = on_clear_abi
    router = pt.Router("r", pt.BareCallActions(**bare_kw) if bare_kw else None, clear_state=clear_action)
    for k, m in enumerate(case.get("methods", [])):
        kw = {oc: CC[cc] for oc, cc in m["cfg"].items() if cc != NEVER}
        if m.get("via") == "decorator":
            # the @router.method(...) registration path: keywords given -> the others default to NEVER;
            # no keyword at all -> no_op=CALL (the case generator only uses that default form for that config)
            impl = plain_fn(m["name"], "M" + m["name"])
            if m.get("default_form"):
                router.method(impl)
            else:
                router.method(**kw)(impl)
        else:
            router.add_method_handler(make_method(m["name"], "M" + m["name"]), method_config=pt.MethodConfig(**kw))
    return router


def expected(case, sel, oc, creating):
    """-> marker the call must log, or None if it must be rejected"""
    status = CREATE if creating else CALL
    ocname = [k for k, v in OC_NUM.items() if v == oc][0]
    if sel is None:
        cc = case.get("bare", {}).get(ocname, NEVER)
        return ("B" + ocname).encode() if cc & status else None
    for m in case.get("methods", []):
        if selector(m["name"] + "()void") == sel:
            cc = m["cfg"].get(ocname, NEVER)
            return ("M" + m["name"]).encode() if cc & status else None
    return None


def calls_for(case):
    sels = [None]
    for m in case.get("methods", []):
        s = selector(m["name"] + "()void")
        sels.append(s)
    sels.append(b"\xde\xad\xbe\xef")
    if case.get("methods"):
        sels.append(selector(case["methods"][0]["name"] + "()void")[:3])
        sels.append(selector(case["methods"][0]["name"] + "()void") + b"\x00")
    for sel in sels:
        for oc in (0, 1, 2, 4, 5):
            # application id 0 = creation; 1 (the smallest non-zero id), 7 and 2^64-1 = ordinary calls
            for app_id in (0, 1, 7, (1 << 64) - 1):
                yield sel, oc, app_id


def check_case(case, out, versions):
    cnt, oc_ = out["counters"], out["outcomes"]
    for ver in versions:
        try:
            router = build_router(case)
            approval, clear, contract = router.compile_program(version=ver)
        except drive.PT_ERRORS as e:
            oc_["router_rejected"] = oc_.get("router_rejected", 0) + 1
            # a registration that can never be called is documented to be rejected; anything else is suspicious
            callable_ = any(cc != NEVER for m in case.get("methods", []) for cc in m["cfg"].values())
            if case.get("expect_ok", True) and (callable_ or not case.get("methods")):
                out["violations"].append({"driver": "build", "size": 1, "title": "router rejected: %s (%s)" % (str(e)[:120], common.jdump(case)[:200]),
                                          "case": case, "version": ver, "features": {"why": "rejected"}})
            continue
        except Exception as e:
            out["violations"].append({"driver": "build", "size": 1, "title": "router build crashed: %r" % (e,),
                                      "case": case, "version": ver, "features": {"why": "crash"}})
            continue
        pa = asm.assemble(approval)
        pc = asm.assemble(clear)
        for sel, oc, app_id in calls_for(case):
            creating = app_id == 0
            args = [] if sel is None else [sel]
            txn = interp.default_txn(ApplicationArgs=args, OnCompletion=oc, ApplicationID=app_id)
            res = interp.run(pa, interp.Ctx(mode="A", group=[txn]), fuel=20000)
            cnt["traces_validated"] = cnt.get("traces_validated", 0) + 1
            want = expected(case, sel, oc, creating)
            if want is None:
                ok = res.verdict in ("REJECT", "FAIL")
                oc_["rejected"] = oc_.get("rejected", 0) + 1
            else:
                ok = res.verdict == "APPROVE" and res.logs == [want]
                oc_["dispatched"] = oc_.get("dispatched", 0) + 1
            if not ok:
                out["violations"].append({
                    "driver": "dispatch", "size": len(case.get("methods", [])) + len(case.get("bare", {})),
                    "title": "v%d call(selector=%s, oc=%d, create=%s): expected %s, got %s logs=%r; router %s" % (
                        ver, sel.hex() if sel else None, oc, creating, want or "rejection", res.verdict, res.logs, common.jdump(case)[:300]),
                    "case": case, "version": ver, "call": {"selector": sel, "oc": oc, "creating": creating},
                    "teal": approval, "features": {"why": "dispatch", "expected_reject": want is None}})
        # clear-state program
        clear_kind = case.get("clear", "none")
        for args in ([], [b"\xde\xad\xbe\xef"]):
            txn = interp.default_txn(ApplicationArgs=args, OnCompletion=3, ApplicationID=7)
            res = interp.run(pc, interp.Ctx(mode="A", group=[txn]), fuel=20000)
            cnt["traces_validated"] = cnt.get("traces_validated", 0) + 1
            if clear_kind in ("none", "reject"):
                ok = res.verdict in ("REJECT", "FAIL") and not res.logs
            elif clear_kind == "approve":
                ok = res.verdict == "APPROVE" and not res.logs
            else:
                ok = res.verdict == "APPROVE" and res.logs == [b"CLEAR"]
            oc_["clear:" + res.verdict] = oc_.get("clear:" + res.verdict, 0) + 1
            if not ok:
                out["violations"].append({
                    "driver": "clear", "size": 1,
                    "title": "v%d clear-state program (action %s, args %r) gave %s logs=%r" % (ver, clear_kind, args, res.verdict, res.logs),
                    "case": case, "version": ver, "teal": clear, "features": {"why": "clear"}})


HIST_OPS = [("sig", None), ("sig", "zz"), ("add", "A", None), ("add", "A", "alias"), ("add", "B", None), ("add", "B", "other")]
HIST_NAMES = ["ping", "alias", "other", "zz"]


def check_history(case, out, versions):
    """family (e): ONE handler object (python name 'ping') whose signature is queried and which is registered,
    under its own or an overriding name, in two routers, in every order.  Model: each router holds the set of
    names it was registered under (registering a name twice in one router must be refused); each router must
    dispatch exactly on the selectors of its own names."""
    cnt, oc_ = out["counters"], out["outcomes"]
    for ver in versions:
        h = make_method("ping", "Mping")
        routers = {"A": pt.Router("ra"), "B": pt.Router("rb")}
        model = {"A": set(), "B": set()}
        dead = False
        for op in case["history"]:
            try:
                if op[0] == "sig":
                    got = h.method_signature(op[1]) if op[1] else h.method_signature()
                    want = "%s()void" % (op[1] or "ping")
                    if got != want:
                        out["violations"].append({
                            "driver": "history", "size": len(case["history"]),
                            "title": "v%d after %r: method_signature(%r) = %r, expected %r" % (ver, case["history"], op[1], got, want),
                            "case": case, "version": ver, "features": {"why": "signature"}})
                        dead = True
                        break
                else:
                    name = op[2] or "ping"
                    dup = name in model[op[1]]
                    try:
                        routers[op[1]].add_method_handler(h, overriding_name=op[2], method_config=pt.MethodConfig(no_op=pt.CallConfig.CALL))
                        refused = False
                    except pt.TealInputError:
                        refused = True
                    if refused != dup:
                        out["violations"].append({
                            "driver": "history", "size": len(case["history"]),
                            "title": "v%d history %r: registering %r in router %s was %s" % (
                                ver, case["history"], name, op[1], "refused although the name is new there" if refused else
                                "accepted although that name is already registered there"),
                            "case": case, "version": ver, "features": {"why": "registration"}})
                        dead = True
                        break
                    if not refused:
                        model[op[1]].add(name)
            except Exception as e:
                out["violations"].append({"driver": "history", "size": len(case["history"]),
                                          "title": "v%d history %r: %r crashed: %r" % (ver, case["history"], op, e),
                                          "case": case, "version": ver, "features": {"why": "crash"}})
                dead = True
                break
        if dead:
            continue
        for rn, router in routers.items():
            if not model[rn]:
                continue
            try:
                approval, _clear, _contract = router.compile_program(version=ver)
            except Exception as e:
                out["violations"].append({"driver": "history", "size": len(case["history"]),
                                          "title": "v%d history %r: router %s does not compile: %r" % (ver, case["history"], rn, e),
                                          "case": case, "version": ver, "features": {"why": "rejected"}})
                continue
            pa = asm.assemble(approval)
            for nm in HIST_NAMES:
                sel = selector(nm + "()void")
                txn = interp.default_txn(ApplicationArgs=[sel], OnCompletion=0, ApplicationID=7)
                res = interp.run(pa, interp.Ctx(mode="A", group=[txn]), fuel=20000)
                cnt["traces_validated"] = cnt.get("traces_validated", 0) + 1
                if nm in model[rn]:
                    ok = res.verdict == "APPROVE" and res.logs == [b"Mping"]
                    oc_["dispatched"] = oc_.get("dispatched", 0) + 1
                else:
                    ok = res.verdict in ("REJECT", "FAIL")
                    oc_["rejected"] = oc_.get("rejected", 0) + 1
                if not ok:
                    out["violations"].append({
                        "driver": "history", "size": len(case["history"]),
                        "title": "v%d history %r: router %s registered %r; call with the selector of %r gave %s logs=%r" % (
                            ver, case["history"], rn, sorted(model[rn]), nm + "()void", res.verdict, res.logs),
                        "case": case, "version": ver, "teal": approval,
                        "features": {"why": "dispatch", "expected_reject": nm not in model[rn]}})


def _fee7():
    return pt.Txn.fee() == pt.Int(7)


# family (g): shapes of a bare-call / clear-state ACTION given as a plain expression.  The Router completes an
# action that can finish without returning by an Approve.  kind -> (builder, {fee==7: (verdict, logs), else: ...})
ACTION_KINDS = {
    "seq_approve": (lambda: pt.Seq(pt.Log(pt.Bytes("X")), pt.Approve()), {True: ("APPROVE", [b"X"]), False: ("APPROVE", [b"X"])}),
    "no_return": (lambda: pt.Log(pt.Bytes("X")), {True: ("APPROVE", [b"X"]), False: ("APPROVE", [b"X"])}),
    "cond_last_returns": (lambda: pt.Cond([_fee7(), pt.Log(pt.Bytes("X"))], [pt.Int(1), pt.Seq(pt.Log(pt.Bytes("Y")), pt.Approve())]),
                          {True: ("APPROVE", [b"X"]), False: ("APPROVE", [b"Y"])}),
    "cond_first_returns": (lambda: pt.Cond([_fee7(), pt.Seq(pt.Log(pt.Bytes("X")), pt.Approve())], [pt.Int(1), pt.Log(pt.Bytes("Y"))]),
                           {True: ("APPROVE", [b"X"]), False: ("APPROVE", [b"Y"])}),
    "cond_three": (lambda: pt.Cond([_fee7(), pt.Seq(pt.Log(pt.Bytes("X")), pt.Reject())], [pt.Txn.fee() == pt.Int(9), pt.Log(pt.Bytes("Z"))],
                                   [pt.Int(1), pt.Seq(pt.Log(pt.Bytes("Y")), pt.Approve())]),
                   {True: ("REJECT", [b"X"]), False: ("APPROVE", [b"Y"])}),
    "if_else_returns": (lambda: pt.If(_fee7()).Then(pt.Log(pt.Bytes("X"))).Else(pt.Seq(pt.Log(pt.Bytes("Y")), pt.Approve())),
                        {True: ("APPROVE", [b"X"]), False: ("APPROVE", [b"Y"])}),
    "if_then_returns": (lambda: pt.If(_fee7()).Then(pt.Seq(pt.Log(pt.Bytes("X")), pt.Approve())).Else(pt.Log(pt.Bytes("Y"))),
                        {True: ("APPROVE", [b"X"]), False: ("APPROVE", [b"Y"])}),
    "if_then_rejects": (lambda: pt.If(_fee7()).Then(pt.Seq(pt.Log(pt.Bytes("X")), pt.Reject())),
                        {True: ("REJECT", [b"X"]), False: ("APPROVE", [])}),
    "seq_if_approve": (lambda: pt.Seq(pt.Log(pt.Bytes("X")), pt.If(_fee7()).Then(pt.Approve())),
                       {True: ("APPROVE", [b"X"]), False: ("APPROVE", [b"X"])}),
    "while_then_fall": (lambda: pt.Seq(pt.While(pt.Int(0)).Do(pt.Approve()), pt.Log(pt.Bytes("X"))),
                        {True: ("APPROVE", [b"X"]), False: ("APPROVE", [b"X"])}),
}


def action_router(case):
    build, _table = ACTION_KINDS[case["action"]]
    if case["place"] == "bare":
        router = pt.Router("r", pt.BareCallActions(no_op=pt.OnCompleteAction(action=build(), call_config=pt.CallConfig.CALL)),
                           clear_state=pt.Approve())
    else:
        router = pt.Router("r", pt.BareCallActions(no_op=pt.OnCompleteAction(action=pt.Approve(), call_config=pt.CallConfig.CREATE)),
                           clear_state=build())
    router.add_method_handler(make_method("m0", "Mm0"), method_config=pt.MethodConfig(no_op=pt.CallConfig.CALL))
    return router


def programs_for(case, ver):
    """(approval text, clear text) of a router case of families (a)-(d), (g) - for the checks that look at emitted
    programs as such (C04 legality / control flow, C05 stack discipline)"""
    router = action_router(case) if "action" in case else build_router(case)
    approval, clear, _c = router.compile_program(version=ver)
    return approval, clear


def check_action(case, out, versions):
    cnt, oc_ = out["counters"], out["outcomes"]
    build, table = ACTION_KINDS[case["action"]]
    for ver in versions:
        try:
            if case["place"] == "bare":
                router = pt.Router("r", pt.BareCallActions(no_op=pt.OnCompleteAction(action=build(), call_config=pt.CallConfig.CALL)),
                                   clear_state=pt.Approve())
            else:
                router = pt.Router("r", pt.BareCallActions(no_op=pt.OnCompleteAction(action=pt.Approve(), call_config=pt.CallConfig.CREATE)),
                                   clear_state=build())
            router.add_method_handler(make_method("m0", "Mm0"), method_config=pt.MethodConfig(no_op=pt.CallConfig.CALL))
            approval, clear, _c = router.compile_program(version=ver)
        except Exception as e:
            out["violations"].append({"driver": "action", "size": 1, "title": "v%d router with %s action %s does not build: %r" % (
                ver, case["place"], case["action"], e), "case": case, "version": ver, "features": {"why": "rejected"}})
            continue
        p = asm.assemble(approval if case["place"] == "bare" else clear)
        for fee in (7, 8):
            txn = interp.default_txn(ApplicationArgs=[], OnCompletion=0 if case["place"] == "bare" else 3, ApplicationID=7, Fee=fee)
            res = interp.run(p, interp.Ctx(mode="A", group=[txn]), fuel=20000)
            cnt["traces_validated"] = cnt.get("traces_validated", 0) + 1
            want_v, want_logs = table[fee == 7]
            got_v = res.verdict
            oc_["action:" + res.verdict] = oc_.get("action:" + res.verdict, 0) + 1
            if got_v != want_v or (want_v == "APPROVE" and res.logs != want_logs):
                out["violations"].append({
                    "driver": "action", "size": 1,
                    "title": "v%d %s action %s, fee %d: expected %s logs=%r, got %s %s logs=%r" % (
                        ver, case["place"], case["action"], fee, want_v, want_logs, res.verdict, res.why, res.logs),
                    "case": case, "version": ver, "teal": approval if case["place"] == "bare" else clear,
                    "features": {"why": "action", "expected_reject": want_v == "REJECT"}})


LIFE_OPS = ["a1", "a2", "c6", "c8"]


def lifecycle_cases(maxlen):
    """family (i): histories over {register method one, register method two, compile at v6, compile at v8} on ONE
    router (each method registered at most once, at least one registration)"""
    out = []
    for n in range(1, maxlen + 1):
        for h in itertools.product(LIFE_OPS, repeat=n):
            if h.count("a1") > 1 or h.count("a2") > 1 or not ("a1" in h or "a2" in h):
                continue
            if not any(x.startswith("c") for x in h[:-1]):
                continue    # no compilation before the last operation: nothing that could go stale
            out.append({"lifecycle": list(h)})
    return out


def check_lifecycle(case, out, versions):
    """after the history, the router is compiled once more at each version: it must dispatch exactly on the methods
    registered by then, and its contract must list exactly those"""
    cnt, oc_ = out["counters"], out["outcomes"]
    names = {"a1": "one", "a2": "two"}
    for ver in versions:
        router = pt.Router("r", pt.BareCallActions(no_op=pt.OnCompleteAction(action=pt.Approve(), call_config=pt.CallConfig.CREATE)),
                           clear_state=pt.Approve())
        registered = []
        try:
            for op in case["lifecycle"]:
                if op in names:
                    router.add_method_handler(make_method(names[op], "M" + names[op]), method_config=pt.MethodConfig(no_op=pt.CallConfig.CALL))
                    registered.append(names[op])
                else:
                    router.compile_program(version=int(op[1:]))
            approval, _clear, contract = router.compile_program(version=ver)
        except Exception as e:
            out["violations"].append({"driver": "lifecycle", "size": len(case["lifecycle"]),
                                      "title": "v%d history %r: %r" % (ver, case["lifecycle"], e),
                                      "case": case, "version": ver, "features": {"why": "crash"}})
            continue
        listed = sorted(m.name for m in contract.methods)
        if listed != sorted(registered):
            out["violations"].append({"driver": "lifecycle", "size": len(case["lifecycle"]),
                                      "title": "v%d history %r: contract lists %r, registered %r" % (ver, case["lifecycle"], listed, sorted(registered)),
                                      "case": case, "version": ver, "features": {"why": "contract"}})
        pa = asm.assemble(approval)
        for nm in ("one", "two"):
            txn = interp.default_txn(ApplicationArgs=[selector(nm + "()void")], OnCompletion=0, ApplicationID=7)
            res = interp.run(pa, interp.Ctx(mode="A", group=[txn]), fuel=20000)
            cnt["traces_validated"] = cnt.get("traces_validated", 0) + 1
            if nm in registered:
                ok = res.verdict == "APPROVE" and res.logs == [("M" + nm).encode()]
                oc_["dispatched"] = oc_.get("dispatched", 0) + 1
            else:
                ok = res.verdict in ("REJECT", "FAIL")
                oc_["rejected"] = oc_.get("rejected", 0) + 1
            if not ok:
                out["violations"].append({
                    "driver": "lifecycle", "size": len(case["lifecycle"]),
                    "title": "v%d history %r (registered %r): call of %s()void gave %s logs=%r" % (
                        ver, case["lifecycle"], registered, nm, res.verdict, res.logs),
                    "case": case, "version": ver, "teal": approval,
                    "features": {"why": "dispatch", "expected_reject": nm not in registered}})


def check_shared_action(case, out, versions):
    """family (h): ONE action object registered for the bare no_op call (config c1), the bare opt_in call (c2) and,
    optionally, as the clear-state action.  Every slot must behave as if it had its own copy."""
    cnt, oc_ = out["counters"], out["outcomes"]
    c1, c2, clear_shared, kind = case["shared"]
    for ver in versions:
        if kind == "seq":
            action = pt.Seq(pt.Log(pt.Bytes("S")), pt.Approve())
        elif kind == "noreturn":
            action = pt.Log(pt.Bytes("S"))
        else:
            @pt.Subroutine(pt.TealType.none)
            def shared_action():
                return pt.Log(pt.Bytes("S"))
            action = shared_action
        try:
            router = pt.Router("r", pt.BareCallActions(no_op=pt.OnCompleteAction(action=action, call_config=CC[c1]),
                                                       opt_in=pt.OnCompleteAction(action=action, call_config=CC[c2])),
                               clear_state=action if clear_shared else pt.Approve())
            router.add_method_handler(make_method("m0", "Mm0"), method_config=pt.MethodConfig(no_op=pt.CallConfig.CALL))
            approval, clear, _c = router.compile_program(version=ver)
        except Exception as e:
            out["violations"].append({"driver": "shared-action", "size": 2, "title": "v%d router with a shared action does not build: %r (%r)" % (ver, e, case),
                                      "case": case, "version": ver, "features": {"why": "rejected"}})
            continue
        pa, pc = asm.assemble(approval), asm.assemble(clear)
        for oc, cc in ((0, c1), (1, c2)):
            for app_id in (0, 7):
                txn = interp.default_txn(ApplicationArgs=[], OnCompletion=oc, ApplicationID=app_id)
                res = interp.run(pa, interp.Ctx(mode="A", group=[txn]), fuel=20000)
                cnt["traces_validated"] = cnt.get("traces_validated", 0) + 1
                allowed = bool(cc & (CREATE if app_id == 0 else CALL))
                ok = (res.verdict == "APPROVE" and res.logs == [b"S"]) if allowed else res.verdict in ("REJECT", "FAIL")
                oc_["dispatched" if allowed else "rejected"] = oc_.get("dispatched" if allowed else "rejected", 0) + 1
                if not ok:
                    out["violations"].append({
                        "driver": "shared-action", "size": 2,
                        "title": "v%d shared %s action (no_op=%d, opt_in=%d, clear shared=%s): bare call oc=%d create=%s expected %s, got %s logs=%r" % (
                            ver, kind, c1, c2, clear_shared, oc, app_id == 0, "approval" if allowed else "rejection", res.verdict, res.logs),
                        "case": case, "version": ver, "teal": approval, "features": {"why": "dispatch", "expected_reject": not allowed}})
        txn = interp.default_txn(ApplicationArgs=[], OnCompletion=3, ApplicationID=7)
        res = interp.run(pc, interp.Ctx(mode="A", group=[txn]), fuel=20000)
        cnt["traces_validated"] = cnt.get("traces_validated", 0) + 1
        want_logs = [b"S"] if clear_shared else []
        if res.verdict != "APPROVE" or res.logs != want_logs:
            out["violations"].append({
                "driver": "shared-action", "size": 2,
                "title": "v%d shared %s action (no_op=%d, opt_in=%d, clear shared=%s): clear-state program gave %s logs=%r" % (
                    ver, kind, c1, c2, clear_shared, res.verdict, res.logs),
                "case": case, "version": ver, "teal": clear, "features": {"why": "clear"}})


_COLLISION = None


def colliding_names():
    """two different method names c<i>, c<j> whose signatures c<i>()void / c<j>()void have the same 4-byte
    selector (first collision of the sequence c0, c1, ...: about 10^5 hashes)"""
    global _COLLISION
    if _COLLISION is None:
        seen = {}
        i = 0
        while True:
            nm = "c%d" % i
            s = selector(nm + "()void")
            if s in seen:
                _COLLISION = (seen[s], nm)
                break
            seen[s] = nm
            i += 1
    return _COLLISION


def check_collision(case, out, versions):
    """family (f): two methods that cannot be told apart by selector (same signature, or different signatures
    with colliding selectors) - the second registration must be refused; if it is accepted the second handler
    can never run although the contract lists it"""
    cnt, oc_ = out["counters"], out["outcomes"]
    a, b = colliding_names()
    first, second = {"collide": (a, b), "collide-rev": (b, a), "same": (a, a)}[case["collision"]]
    for ver in versions:
        for via in ("handler", "decorator"):
            router = pt.Router("r")
            cnt["traces_validated"] = cnt.get("traces_validated", 0) + 1
            try:
                for nm in (first, second):
                    if via == "decorator":
                        router.method(no_op=pt.CallConfig.CALL)(plain_fn(nm, "M" + nm))
                    else:
                        router.add_method_handler(make_method(nm, "M" + nm), method_config=pt.MethodConfig(no_op=pt.CallConfig.CALL))
            except pt.TealInputError:
                oc_["collision_refused"] = oc_.get("collision_refused", 0) + 1
                continue
            except Exception as e:
                out["violations"].append({"driver": "collision", "size": 2, "title": "registration crashed: %r" % (e,),
                                          "case": case, "version": ver, "features": {"why": "crash"}})
                continue
            out["violations"].append({
                "driver": "collision", "size": 2,
                "title": "v%d (%s): methods %s()void and %s()void have the same selector %s, yet both were registered: the second can never run" % (
                    ver, via, first, second, selector(first + "()void").hex()),
                "case": case, "version": ver, "features": {"why": "selector collision accepted"}})


def _worker(items, base):
    out = {"counters": {}, "outcomes": {}, "violations": [], "samples": []}
    for case in items:
        if "lifecycle" in case:
            check_lifecycle(case, out, _VERSIONS)
            out["counters"]["states"] = out["counters"].get("states", 0) + 1
            out["counters"]["transitions"] = out["counters"].get("transitions", 0) + len(case["lifecycle"])
            continue
        if "shared" in case:
            check_shared_action(case, out, _VERSIONS)
            out["counters"]["states"] = out["counters"].get("states", 0) + 1
            out["counters"]["transitions"] = out["counters"].get("transitions", 0) + 5
            continue
        if "action" in case:
            check_action(case, out, _VERSIONS)
            out["counters"]["states"] = out["counters"].get("states", 0) + 1
            out["counters"]["transitions"] = out["counters"].get("transitions", 0) + 2
            continue
        if "collision" in case:
            check_collision(case, out, _VERSIONS)
            out["counters"]["states"] = out["counters"].get("states", 0) + 1
            continue
        if "history" in case:
            check_history(case, out, _VERSIONS)
            out["counters"]["states"] = out["counters"].get("states", 0) + 1
            out["counters"]["transitions"] = out["counters"].get("transitions", 0) + len(case["history"])
            continue
        check_case(case, out, _VERSIONS)
        out["counters"]["states"] = out["counters"].get("states", 0) + 1
        out["counters"]["transitions"] = out["counters"].get("transitions", 0) + len(list(calls_for(case)))
    if items and base % 211 == 0:
        out["samples"].append(items[0])
    return out


def router_cases(tier):
    cases = []
    # (a) one method, every MethodConfig over the five approval OnCompletes
    for combo in itertools.product((NEVER, CALL, CREATE, ALL), repeat=5):
        if not any(combo):
            continue
        cases.append({"methods": [{"name": "m0", "cfg": dict(zip(OCS, combo))}], "bare": {}, "clear": "none"})
    # (a') the same through the @router.method(...) decorator path (and its keyword-free default form)
    for combo in itertools.product((NEVER, CALL, CREATE, ALL), repeat=5):
        if not any(combo):
            continue
        cases.append({"methods": [{"name": "d0", "cfg": dict(zip(OCS, combo)), "via": "decorator"}], "bare": {}, "clear": "none"})
    cases.append({"methods": [{"name": "d0", "cfg": {"no_op": CALL}, "via": "decorator", "default_form": True}], "bare": {}, "clear": "none"})
    # (b) every bare configuration beside one fixed method
    for combo in itertools.product((NEVER, CALL, CREATE, ALL), repeat=5):
        cases.append({"methods": [{"name": "m0", "cfg": {"no_op": CALL}}], "bare": dict(zip(OCS, combo)), "clear": "approve"})
    # (c) ordered pairs of methods, configs over two OnCompletes, reduced bare sets
    two = [dict(zip(("no_op", "opt_in"), c)) for c in itertools.product((NEVER, CALL, CREATE, ALL), repeat=2) if any(c)]
    bares = [{}, {"no_op": CREATE}, {"no_op": ALL, "opt_in": CALL}, {"delete_application": CALL, "update_application": CALL}]
    for c1 in two:
        for c2 in two:
            for b in (bares if tier == "thorough" else bares[:2]):
                cases.append({"methods": [{"name": "first", "cfg": c1}, {"name": "second", "cfg": c2}], "bare": b, "clear": "none"})
    # three methods, one OnCompletion each
    for c in itertools.product((CALL, CREATE, ALL), repeat=3):
        cases.append({"methods": [{"name": "a", "cfg": {"no_op": c[0]}}, {"name": "b", "cfg": {"opt_in": c[1]}},
                                  {"name": "c", "cfg": {"no_op": c[2], "delete_application": CALL}}],
                      "bare": {"no_op": CREATE}, "clear": "log"})
    # (d) empty router, clear-state variants
    for clear in ("none", "approve", "reject", "log", "sub", "abisub"):
        cases.append({"methods": [], "bare": {}, "clear": clear})
        cases.append({"methods": [], "bare": {"no_op": ALL}, "clear": clear})
        cases.append({"methods": [{"name": "m0", "cfg": {"no_op": ALL}}], "bare": {}, "clear": clear})
    # (e) every history of <= 3 (thorough: 4) operations on ONE handler object shared by two routers
    for n in range(1, 4 if tier == "quick" else 5):
        for hist in itertools.product(range(len(HIST_OPS)), repeat=n):
            ops = [list(HIST_OPS[i]) for i in hist]
            if any(o[0] == "add" for o in ops):
                cases.append({"history": ops})
    # (f) indistinguishable methods
    for k in ("collide", "collide-rev", "same"):
        cases.append({"collision": k})
    # (g) action shapes (returning on some / all / no paths) as bare-call and as clear-state action
    for k in ACTION_KINDS:
        for place in ("bare", "clear"):
            cases.append({"action": k, "place": place})
    # (i) router life cycles: compile - register - compile ...
    cases += lifecycle_cases(4 if tier == "quick" else 5)
    # (h) one action object shared by several registration slots
    for c1 in (CALL, CREATE, ALL):
        for c2 in (CALL, CREATE, ALL):
            for clear_shared in (False, True):
                for kind in ("seq", "noreturn", "sub"):
                    cases.append({"shared": [c1, c2, clear_shared, kind]})
    return cases


def run(tier):
    global _VERSIONS
    rep = common.Report(PID, tier)
    rep.rule = ("every router configuration of families (a)-(d) (a state) x the full call alphabet (transitions: "
                "selector in {none, each registered, unknown, 3-byte prefix, 5 bytes} x OnCompletion {0,1,2,4,5} x "
                "create/non-create; clear program with/without arguments) x versions")
    _VERSIONS = (6, 8, 10) if tier == "quick" else (6, 7, 8, 9, 10)
    items = router_cases(tier)
    if tier == "quick":
        # families (a)/(b) are 1023 + 1024 routers; at quick they run on one scratch and one frame-pointer version
        pass
    rep.bounds["routers"] = len(items)
    rep.bounds["versions"] = list(_VERSIONS)
    for sh in common.pmap_shards(_worker, items, order_seed=rep.seed):
        rep.merge(sh)
    rep.counters["distinct_nontrivial"] = rep.counters.get("states", 0)
    rep.assumptions = ["reference AVM", "OnCompletion ClearState never reaches an approval program on chain",
                       "creation <=> Txn.application_id() == 0"]
    if not rep.outcomes.get("dispatched") or not rep.outcomes.get("rejected"):
        raise common.MachineryError("vacuous")
    return rep.finish()


def replay(case):
    out = {"counters": {}, "outcomes": {}, "violations": [], "samples": []}
    if "lifecycle" in case["case"]:
        check_lifecycle(case["case"], out, (case["version"],))
    elif "shared" in case["case"]:
        check_shared_action(case["case"], out, (case["version"],))
    elif "action" in case["case"]:
        check_action(case["case"], out, (case["version"],))
    elif "collision" in case["case"]:
        check_collision(case["case"], out, (case["version"],))
    elif "history" in case["case"]:
        check_history(case["case"], out, (case["version"],))
    else:
        check_case(case["case"], out, (case["version"],))
    for v in out["violations"][:5]:
        print("still violates:", v["title"][:300])
    return bool(out["violations"])
