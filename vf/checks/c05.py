"""C05 - emitted code keeps stack and type discipline on every path.

For every program emitted for the recipe populations (control flow in main / as first
statement / inside subroutines, expressions, reads, subroutine call graphs) under every
configuration, the abstract machine (pc, stack of abstract types) of the emitted text is
explored exhaustively over its CFG (vf/avm/absint.py); additionally programs without any
anytype expression are executed on the input alphabet and must never fail with a type or
stack-underflow fault.
"""
from .. import common, drive
from ..avm import asm, absint, interp
from ..recipe import build as rb
from ..recipe import gen_ctrl, gen_expr, gen_reads, gen_sub, gen_opt, gen_abisub
from . import c03


def _unopt(prog, cfg, driver):
    """text of the same program without the slot optimisation (for the optimiser-finding signature)"""
    if driver == "abi-subs":
        c2 = rb.Cfg(cfg.version, cfg.mode, scratch_slots=False, frame_pointers=cfg.frame_pointers)
        st, text = gen_abisub.compile_native(prog["native"], c2)
        return text if st == "ok" else ""
    return c03._unopt_text(prog, cfg, drive.tickmode_for(cfg))

PID = "C05"
_CFGS = None


def _new_out():
    return {"counters": {}, "outcomes": {}, "violations": [], "samples": []}


def analyse_text(text, cfg):
    p = asm.assemble(text, cfg.mode)
    an = absint.analyse(p)
    return p, an


def _worker(items, base):
    out = _new_out()
    cnt, oc = out["counters"], out["outcomes"]
    cache = drive.ExecCache()
    for size, prog, driver, inputs in items:
        for cfg in _CFGS:
            if (prog.get("subs") or driver == "abi-subs") and cfg.version < 4:
                continue
            if driver == "abi-subs":
                # hand-written ABI-subroutine programs of gen_abisub (by-reference parameters, outputs, recursion)
                if cfg.mode != "A":
                    continue
                st, text = gen_abisub.compile_native(prog["native"], cfg)
            else:
                st, text = drive.compile_recipe(prog, cfg)
            oc[st] = oc.get(st, 0) + 1
            if st != "ok":
                continue
            p, an = analyse_text(text, cfg)
            cnt["traces_validated"] = cnt.get("traces_validated", 0) + 1
            cnt["abstract_states"] = cnt.get("abstract_states", 0) + an.states
            cnt["abstract_transitions"] = cnt.get("abstract_transitions", 0) + an.transitions
            cnt["routines"] = cnt.get("routines", 0) + an.routines
            for rid, ln, msg in an.issues[:3]:
                kind = "height" if ("height" in msg or "floor" in msg or "underflow" in msg or "retsub" in msg) else \
                    ("type" if ("required" in msg or "compares" in msg or "bytes on top" in msg) else "other")
                feats = {"kind": kind, "driver": driver, "static": True}
                if driver == "operand-transfer":
                    feats["operands_pending"] = bool(prog["meta"]["pending"])
                elif c03._optimises(cfg):
                    feats.update(c03.optimizer_diff_features(_unopt(prog, cfg, driver), text))
                out["violations"].append({
                    "driver": driver, "size": size, "title": "%s: %s at line %d of %s (v%d %s)" % (driver, msg, ln, rid, cfg.version, cfg.mode),
                    "recipe": prog, "cfg": cfg.to_json(), "issue": [rid, ln, msg], "teal": text,
                    "features": feats,
                })
            if driver == "operand-transfer" and not an.issues and an.main_return_heights - {1}:
                out["violations"].append({
                    "driver": driver, "size": size, "title": "%s: the main routine returns with %s values on the stack (v%d %s)" % (
                        driver, sorted(an.main_return_heights), cfg.version, cfg.mode),
                    "recipe": prog, "cfg": cfg.to_json(), "issue": ["main", 0, "return height"], "teal": text,
                    "features": {"kind": "height", "driver": driver, "static": True, "operands_pending": bool(prog["meta"]["pending"])}})
            # dynamic side: no type / underflow fault on any input (recipes here contain no anytype expression)
            if inputs:
                skey = p.stream()
                for ii, inp in enumerate(inputs):
                    res = cache.run(p, skey, (cfg.mode, ii), lambda: drive.ctx_for(inp, cfg), fuel=20000)
                    cnt["executions"] = cnt.get("executions", 0) + 1
                    oc["run:" + res.verdict] = oc.get("run:" + res.verdict, 0) + 1
                    if res.verdict == "FAIL" and res.cat in ("type", "underflow"):
                        feats = {"kind": "dynamic_" + res.cat, "driver": driver, "static": False}
                        if driver == "operand-transfer":
                            feats["operands_pending"] = bool(prog["meta"]["pending"])
                        elif c03._optimises(cfg):
                            # structural relation to the unoptimised text (signature of the C03 optimiser finding)
                            feats.update(c03.optimizer_diff_features(_unopt(prog, cfg, driver), text))
                        out["violations"].append({
                            "driver": driver, "size": size,
                            "title": "%s: run-time %s fault: %s (line %s, v%d)" % (driver, res.cat, res.why, res.line, cfg.version),
                            "recipe": prog, "cfg": cfg.to_json(), "input": inp, "teal": text,
                            "features": feats,
                        })
        cnt["states"] = cnt.get("states", 0) + 1
        cnt["transitions"] = cnt.get("transitions", 0) + max(1, size)
        if len(cache.cache) > 20000:
            cache.cache.clear()
    if items and base % 1999 == 0:
        out["samples"].append({"driver": items[0][2], "recipe": items[0][1]})
    return out


_CTOR = None


def _worker_ctor(items, base):
    """every public constructor (the sweep of C04) wrapped according to its DECLARED type - Seq(e, 1) for none,
    Seq(Pop(e), 1) otherwise: besides the usual abstract exploration, the main routine must return with exactly
    one value on the stack (a constructor that declares none but pushes a value, or the reverse, shows here)"""
    from ..recipe import gen_ctor
    out = _new_out()
    cnt, oc = out["counters"], out["outcomes"]
    for name in items:
        th = _CTOR[name]
        for v in (2, 4, 6, 8, 10):
            for mode in ("A", "S"):
                cfg = rb.Cfg(v, mode)
                try:
                    text = rb.compile_cfg(gen_ctor.wrap(th()), cfg)
                except Exception:
                    oc["ctor_not_compiled"] = oc.get("ctor_not_compiled", 0) + 1
                    continue
                p, an = analyse_text(text, cfg)
                cnt["traces_validated"] = cnt.get("traces_validated", 0) + 1
                cnt["abstract_states"] = cnt.get("abstract_states", 0) + an.states
                issues = list(an.issues[:2])
                if an.main_return_heights - {1}:
                    issues.append(("main", 0, "declared type %s, but the wrapped expression leaves %s value(s) at return" % (
                        th().type_of(), sorted(an.main_return_heights))))
                for rid, ln, msg in issues:
                    out["violations"].append({
                        "driver": "ctor", "size": 1, "title": "ctor %s: %s at line %d of %s (v%d %s)" % (name, msg, ln, rid, v, mode),
                        "recipe": {"constructor": name}, "cfg": cfg.to_json(), "issue": [rid, ln, msg], "teal": text,
                        "features": {"kind": "ctor", "driver": "ctor", "static": True}})
        cnt["states"] = cnt.get("states", 0) + 1
        cnt["transitions"] = cnt.get("transitions", 0) + 10
    return out


def _worker_confused(items, base):
    """type confusion: every constructor of the sweep with its k-th literal leaf (in construction order) replaced by a
    leaf of the OTHER stack type, for every k.  Either PyTeal refuses (when the expression is built or compiled) or
    the emitted program must pass the same abstract exploration: no opcode applied to a value of a wrong type"""
    from ..recipe import gen_ctor
    out = _new_out()
    cnt, oc = out["counters"], out["outcomes"]
    for name in items:
        th = _CTOR[name]
        for kind in ("other", "none"):
            for k in range(gen_ctor.leaf_count(th)):
                cnt["transitions"] = cnt.get("transitions", 0) + 1
                try:
                    w = gen_ctor.wrap(gen_ctor.confused(th, k, kind)[0])
                except drive.PT_ERRORS:
                    oc["confused:refused_when_built"] = oc.get("confused:refused_when_built", 0) + 1
                    continue
                except Exception as e:
                    out["violations"].append({
                        "driver": "ctor-confused", "size": 1, "title": "ctor %s with leaf %d replaced (%s): building died with %r" % (name, k, kind, e),
                        "recipe": {"constructor": name, "confused": k, "kind": kind}, "cfg": rb.Cfg(6, "A").to_json(), "issue": ["build", 0, repr(e)[:80]],
                        "features": {"kind": "crash", "driver": "ctor-confused", "static": True}})
                    continue
                for v in (6, 10):
                    cfg = rb.Cfg(v, "A")
                    try:
                        text = rb.compile_cfg(w, cfg)
                    except drive.PT_ERRORS:
                        oc["confused:refused_when_compiled"] = oc.get("confused:refused_when_compiled", 0) + 1
                        continue
                    except Exception as e:
                        oc["confused:compile_died"] = oc.get("confused:compile_died", 0) + 1
                        continue          # C20's business
                    p, an = analyse_text(text, cfg)
                    cnt["traces_validated"] = cnt.get("traces_validated", 0) + 1
                    cnt["abstract_states"] = cnt.get("abstract_states", 0) + an.states
                    oc["confused:accepted"] = oc.get("confused:accepted", 0) + 1
                    issues = list(an.issues[:1])
                    if not issues and an.main_return_heights - {1}:
                        issues.append(("main", 0, "the main routine returns with %s values" % sorted(an.main_return_heights)))
                    for rid, ln, msg in issues:
                        out["violations"].append({
                            "driver": "ctor-confused", "size": 1,
                            "title": "ctor %s with leaf %d replaced (%s) is accepted: %s at line %d of %s (v%d)" % (name, k, kind, msg, ln, rid, v),
                            "recipe": {"constructor": name, "confused": k, "kind": kind}, "cfg": cfg.to_json(), "issue": [rid, ln, msg], "teal": text,
                            "features": {"kind": "type", "driver": "ctor-confused", "static": True}})
        cnt["states"] = cnt.get("states", 0) + 1
    return out


def _worker_routers(items, base):
    """approval and clear-state programs of Router configurations (action shapes, clear-state variants, method
    pairs): the same abstract exploration"""
    from . import c08
    out = _new_out()
    cnt, oc = out["counters"], out["outcomes"]
    for case in items:
        for ver in (6, 8, 10):
            try:
                texts = c08.programs_for(case, ver)
            except Exception:
                oc["router_not_built"] = oc.get("router_not_built", 0) + 1
                continue
            cfg = rb.Cfg(ver, "A")
            for which, text in zip(("approval", "clear"), texts):
                p, an = analyse_text(text, cfg)
                cnt["traces_validated"] = cnt.get("traces_validated", 0) + 1
                cnt["abstract_states"] = cnt.get("abstract_states", 0) + an.states
                cnt["abstract_transitions"] = cnt.get("abstract_transitions", 0) + an.transitions
                cnt["routines"] = cnt.get("routines", 0) + an.routines
                for rid, ln, msg in an.issues[:3]:
                    out["violations"].append({
                        "driver": "router-" + which, "size": 1,
                        "title": "router-%s: %s at line %d of %s (v%d)" % (which, msg, ln, rid, ver),
                        "recipe": {"router": case, "program": which}, "cfg": cfg.to_json(), "issue": [rid, ln, msg], "teal": text,
                        "features": {"kind": "router", "driver": "router-" + which, "static": True}})
        cnt["states"] = cnt.get("states", 0) + 1
        cnt["transitions"] = cnt.get("transitions", 0) + 6
    return out


def run(tier):
    global _CFGS
    rep = common.Report(PID, tier)
    rep.rule = ("for each emitted program: breadth-first exploration of all reachable abstract states (pc, abstract type "
                "stack, frame base) of every routine to a fixpoint; states/transitions reported are recipes and grammar "
                "productions, abstract_states/abstract_transitions the per-program explorations summed")
    vs = (2, 4, 5, 6, 7, 8, 9, 10) if tier == "quick" else range(2, 11)
    _CFGS = [rb.Cfg(v, "A") for v in vs]
    _CFGS += [rb.Cfg(6, "A", scratch_slots=True), rb.Cfg(8, "A", frame_pointers=False),
              rb.Cfg(10, "A", scratch_slots=True, frame_pointers=False), rb.Cfg(6, "S")]
    if tier == "thorough":
        _CFGS += [rb.Cfg(v, "A", scratch_slots=True) for v in (4, 5, 7, 8)] + [rb.Cfg(9, "A", frame_pointers=False)]
    rep.bounds["configs"] = [repr(c) for c in _CFGS]
    basic = drive.make_inputs_basic()
    items = []
    n_full = 3 if tier == "quick" else 4
    g = gen_ctrl.Grammar()
    for n, b in g.programs(n_full):
        items.append((n, gen_ctrl.make_program(b, "implicit"), "ctrl", basic))
        if "retv" not in str(b) and n <= 3:
            items.append((n, gen_ctrl.make_sub_program(b), "ctrl-sub", basic))
    bg = gen_ctrl.Grammar(gen_ctrl.BARE_ATOMS, gen_ctrl.FULL_COMPOUNDS, gen_ctrl.BARE_CONDS)
    for n, b in bg.programs(3):
        items.append((n, gen_ctrl.make_bare_program(b, "approve"), "bare", basic))
    for size, prog, inputs, _mv in gen_expr.e1_programs():
        items.append((size, prog, "expr", None))
    for size, prog, inputs, _mv in gen_expr.e2_programs(2 if tier == "quick" else 3):
        items.append((size, prog, "expr2", inputs))
    for size, prog, inputs, _mv in gen_reads.programs():
        items.append((size, prog, "reads", None))
    for size, prog, inputs in gen_sub.programs(tier):
        items.append((size, prog, "subs", inputs))
    for size, prog, placement in gen_opt.programs(3 if tier == "quick" else 4):
        items.append((size, prog, "opt-" + placement, basic[1:]))
    for size, nat, inputs in gen_abisub.programs(tier):
        items.append((size, {"native": nat}, "abi-subs", inputs))
    for size, nat, inputs in gen_abisub.argtype_programs(tier):
        items.append((size, {"native": nat}, "abi-subs", inputs))
    for size, prog, inputs, lab in gen_ctrl.return_chains(4 if tier == "thorough" else 3):
        items.append((size, prog, "return-chain", inputs))
    for size, prog, inputs, lab in gen_ctrl.typed_chains(3 if tier == "quick" else 4):
        items.append((size, prog, "typed-chain", inputs))
    # byte-string variables written on some paths only and consumed by a bytes opcode: whatever compiles must not
    # meet an unset slot (the integer 0) there
    from ..recipe import gen_init
    ig = gen_init.Grammar(["Sa", "La", "Sb", "Lb"], ["cin"])
    for k, b in ig.programs(4 if tier == "quick" else 5):
        if gen_init.uses_var(b):
            for placement in ("main", "sub"):
                items.append((k, gen_init.make_program(b, placement, "bytes"), "init-bytes", basic))
    # control transfers inside an operand (Break / Continue / Return while sibling operands are pending)
    from ..recipe import gen_xfer
    for size, prog, inputs, meta in gen_xfer.programs():
        items.append((size, dict(prog, meta=meta), "operand-transfer", inputs))
    rep.bounds["recipes"] = len(items)
    for sh in common.pmap_shards(_worker, items, order_seed=rep.seed):
        rep.merge(sh)
    global _CTOR
    from ..recipe import gen_ctor
    ents = gen_ctor.entries()
    _CTOR = dict(ents)
    rep.bounds["constructors"] = len(ents)
    for sh in common.pmap_shards(_worker_ctor, [n for n, _t in ents], order_seed=rep.seed):
        rep.merge(sh)
    for sh in common.pmap_shards(_worker_confused, [n for n, _t in ents], order_seed=rep.seed):
        rep.merge(sh)
    from . import c04
    ritems = c04.router_items(tier)
    rep.bounds["routers"] = len(ritems)
    for sh in common.pmap_shards(_worker_routers, ritems, order_seed=rep.seed):
        rep.merge(sh)
    rep.counters["distinct_nontrivial"] = rep.counters.get("states", 0)
    rep.assumptions = ["opcode stack signatures of vf/avm/spec.py", "callsub summaries inferred per routine (proto A R, or net height of the scratch convention)"]
    if not rep.counters.get("abstract_states"):
        raise common.MachineryError("vacuous")
    return rep.finish()


def replay(case):
    cfg = rb.Cfg.from_json(case["cfg"])
    if "constructor" in case["recipe"]:
        from ..recipe import gen_ctor
        th = dict(gen_ctor.entries())[case["recipe"]["constructor"]]
        if "confused" in case["recipe"]:
            try:
                text = rb.compile_cfg(gen_ctor.wrap(gen_ctor.confused(th, case["recipe"]["confused"], case["recipe"].get("kind", "other"))[0]), cfg)
            except drive.PT_ERRORS as e:
                print("refused now:", e)
                return False
            p, an = analyse_text(text, cfg)
            print("issues:", an.issues[:3], sorted(an.main_return_heights))
            return bool(an.issues) or bool(an.main_return_heights - {1})
        text = rb.compile_cfg(gen_ctor.wrap(th()), cfg)
        p, an = analyse_text(text, cfg)
        print("issues:", an.issues[:3], "main return heights:", sorted(an.main_return_heights))
        return bool(an.issues) or bool(an.main_return_heights - {1})
    if "router" in case["recipe"]:
        from . import c08
        texts = c08.programs_for(case["recipe"]["router"], cfg.version)
        st, text = "ok", (texts[0] if case["recipe"]["program"] == "approval" else texts[1])
    elif "native" in case["recipe"]:
        st, text = gen_abisub.compile_native(case["recipe"]["native"], cfg)
    else:
        st, text = drive.compile_recipe(case["recipe"], cfg)
    if st != "ok":
        print("does not compile any more:", st)
        return False
    p, an = analyse_text(text, cfg)
    for i in an.issues:
        print("issue:", i)
    bad = bool(an.issues)
    if "input" in case:
        res = interp.run(p, drive.ctx_for(case["input"], cfg), fuel=20000)
        print("run:", res)
        bad = bad or (res.verdict == "FAIL" and res.cat in ("type", "underflow"))
    return bad
