"""C04 - successful compilation yields complete, target-legal TEAL.

Every text the compiler emits for (i) all recipes of the control-flow / expression /
read drivers, (ii) the constructor sweep, (iii) label-stress shapes, under every
version x mode, is parsed by the independent grammar + langspec table and its CFG is
walked exhaustively.
"""
import re

import pyteal as pt

from .. import common, drive
from ..avm import asm
from ..recipe import build as rb
from ..recipe import gen_ctrl, gen_expr, gen_reads, gen_ctor

PID = "C04"

PLACEHOLDER = re.compile(r"ScratchSlot|SubroutineDefinition|<pyteal|object at 0x")


def classify_issue(msg):
    if msg.startswith("uint out of range"):
        return "immediate_out_of_uint8_range"
    if "backward branch" in msg:
        return "backward_branch_below_v4"
    if msg.startswith("global ") and "not available in mode" in msg:
        return "global_field_wrong_mode"
    if msg.startswith("itxn_field cannot set"):
        return "itxn_field_unsettable"
    if msg.startswith("itxn_field") and "needs v" in msg:
        return "itxn_field_version"
    if "needs v" in msg and "field" in msg:
        return "field_version"
    if "needs v" in msg:
        return "opcode_version"
    if "not available in mode" in msg:
        return "opcode_mode"
    if "label" in msg:
        return "label"
    if "runs off the end" in msg or "falls into" in msg or "shared between" in msg or "retsub reachable" in msg:
        return "flow"
    return "other"


def legality(text, cfg):
    """-> list of (class, line, message)"""
    out = []
    p = asm.assemble(text, cfg.mode)
    lines = asm.split_lines(text)
    first = lines[0] if lines else ""
    if first.strip() != "#pragma version %d" % cfg.version:
        out.append(("pragma", 1, "first line is %r, expected '#pragma version %d'" % (first, cfg.version)))
    for ln, msg in p.issues:
        out.append((classify_issue(msg), ln, msg))
    for ln, msg in asm.check_flow(p):
        out.append(("flow", ln, msg))
    if PLACEHOLDER.search(text):
        out.append(("placeholder", 0, "unresolved placeholder text in output"))
    return out, p


def _new_out():
    return {"counters": {}, "outcomes": {}, "violations": [], "samples": []}


def _report(out, issues, text, cfg, driver, size, case, extra=None):
    seen = set()
    for cls, ln, msg in issues:
        key = (cls, msg.split("'")[0][:40])
        if key in seen:
            continue
        seen.add(key)
        feats = dict(extra or {}, issue_class=cls, driver=driver)
        if cls == "immediate_out_of_uint8_range":
            l = asm.split_lines(text)[ln - 1].split() if ln else []
            feats["opcode"] = l[0] if l else ""
        if cls == "backward_branch_below_v4":
            src = common.jdump(case)
            feats["source_has_loop"] = ('"While"' in src) or ('"For"' in src)
            feats["version_below_4"] = cfg.version < 4
            l = asm.split_lines(text)[ln - 1].split() if ln else []
            feats["backward_op"] = l[0] if l else ""
        if cls in ("global_field_wrong_mode", "itxn_field_unsettable", "itxn_field_version", "field_version"):
            feats["mode"] = cfg.mode
        out["violations"].append({
            "driver": driver, "size": size, "title": "%s: %s (line %d, v%d %s)" % (driver, msg, ln, cfg.version, cfg.mode),
            "case": case, "cfg": cfg.to_json(), "issue": [cls, ln, msg], "teal": text, "features": feats,
        })


_CFGS = None


def _worker_recipes(items, base):
    out = _new_out()
    cnt, oc = out["counters"], out["outcomes"]
    for size, prog, driver in items:
        for cfg in _CFGS:
            st, text = drive.compile_recipe(prog, cfg)
            oc[st] = oc.get(st, 0) + 1
            if st != "ok":
                continue
            issues, p = legality(text, cfg)
            cnt["traces_validated"] = cnt.get("traces_validated", 0) + 1
            cnt["instructions_checked"] = cnt.get("instructions_checked", 0) + len(p.instrs)
            if issues:
                _report(out, issues, text, cfg, driver, size, {"recipe": prog})
        cnt["states"] = cnt.get("states", 0) + 1
        cnt["transitions"] = cnt.get("transitions", 0) + max(1, size)
    if items and base % 1999 == 0:
        out["samples"].append({"driver": items[0][2], "recipe": items[0][1]})
    return out


def router_items(tier):
    """router configurations whose approval / clear-state programs are checked as emitted programs: every
    action shape of C08's family (g), the clear-state variants (d), three-method routers and (thorough) the
    method pairs (c)"""
    from . import c08
    cases = [c for c in c08.router_cases(tier) if "action" in c]
    rest = [c for c in c08.router_cases(tier) if "methods" in c]
    cases += [c for c in rest if len(c["methods"]) != 1 or c.get("clear") != "none" or c.get("bare")][:(400 if tier == "thorough" else 120)]
    cases += [c for c in rest if len(c["methods"]) == 1][::(16 if tier == "thorough" else 64)]
    return cases


def _worker_routers(items, base):
    from . import c08
    out = _new_out()
    cnt, oc = out["counters"], out["outcomes"]
    for case in items:
        for ver in (6, 8, 10):
            try:
                texts = c08.programs_for(case, ver)
            except drive.PT_ERRORS:
                oc["pterr"] = oc.get("pterr", 0) + 1
                continue
            except Exception:
                oc["crash"] = oc.get("crash", 0) + 1
                continue
            for which, text in zip(("approval", "clear"), texts):
                cfg = rb.Cfg(ver, "A")
                issues, p = legality(text, cfg)
                oc["ok"] = oc.get("ok", 0) + 1
                cnt["traces_validated"] = cnt.get("traces_validated", 0) + 1
                cnt["instructions_checked"] = cnt.get("instructions_checked", 0) + len(p.instrs)
                if issues:
                    _report(out, issues, text, cfg, "router-" + which, 1, {"router": case, "program": which})
        cnt["states"] = cnt.get("states", 0) + 1
        cnt["transitions"] = cnt.get("transitions", 0) + 6
    return out


_CTOR = None


def _worker_ctor(items, base):
    out = _new_out()
    cnt, oc = out["counters"], out["outcomes"]
    for name in items:
        th = _CTOR[name]
        for v in range(2, 11):
            for mode in ("A", "S"):
                cfg = rb.Cfg(v, mode)
                # alone, and behind an annotation (a comment op earlier in the program must not switch off any check)
                for prefix in (None, "comment"):
                    try:
                        e = th()
                        prog = gen_ctor.wrap(e)
                        if prefix:
                            prog = pt.Seq(pt.Comment("note"), prog)
                        text = rb.compile_cfg(prog, cfg)
                    except drive.PT_ERRORS:
                        oc["pterr"] = oc.get("pterr", 0) + 1
                        continue
                    except Exception as ex:
                        oc["crash"] = oc.get("crash", 0) + 1
                        continue
                    oc["ok"] = oc.get("ok", 0) + 1
                    issues, p = legality(text, cfg)
                    cnt["traces_validated"] = cnt.get("traces_validated", 0) + 1
                    cnt["instructions_checked"] = cnt.get("instructions_checked", 0) + len(p.instrs)
                    if issues:
                        _report(out, issues, text, cfg, "ctor", 1, {"constructor": name, "prefix": prefix},
                                extra={"constructor_family": re.split(r"[\[\(]", name)[0]})
        cnt["states"] = cnt.get("states", 0) + 1
        cnt["transitions"] = cnt.get("transitions", 0) + 18
    if items and base % 97 == 0:
        out["samples"].append({"driver": "ctor", "constructor": items[0]})
    return out


# ---------------------------------------------------------------- label stress
NAMES = ["main", "l1", "", "1a", "a b", "a-b", "a_b", "main_l1", "é", "x" * 40, "sub0", "Sub0"]


def label_programs(tier):
    """k nested / sequential loops and conditionals in main and in 1-3 subroutines whose names collide
    after sanitising"""
    out = []
    loop = ["While", ["Lt", ["Load", "c"], ["Int", 1]], ["Seq", ["Store", "c", ["Int", 1]]]]
    nest = ["While", ["Lt", ["Load", "c"], ["Int", 1]], ["Seq", ["If", ["Load", "c"], ["Seq", ["Break"]]],
                                                       ["Store", "c", ["Int", 1]]]]
    bodies = [["Seq", ["Store", "c", ["Int", 0]], loop], ["Seq", ["Store", "c", ["Int", 0]], nest, loop],
              ["Seq", ["Store", "c", ["Int", 0]], ["If", ["Load", "c"], loop, nest]]]
    import itertools
    name_sets = list(itertools.combinations(NAMES, 2)) if tier == "quick" else list(itertools.permutations(NAMES, 2))
    name_sets += [(a, a) for a in NAMES]
    name_sets += [(a, b, c) for a, b, c in itertools.combinations(NAMES[:7], 3)]
    for names in name_sets:
        for bi, body in enumerate(bodies):
            subs = {}
            calls = []
            for k, nm in enumerate(names):
                subs["s%d" % k] = {"params": [], "ret": "none", "body": body, "locals": ["c"], "init_locals": False,
                                   "label": nm, "pyname": "fn%d" % k}
                calls.append(["Call", "s%d" % k])
            main = ["Seq", ["Store", "c", ["Int", 0]], body[2] if len(body) > 2 else ["Seq"]] + calls + [["Int", 1]]
            out.append((len(names), {"mode": "A", "vars": {"c": "u"}, "subs": subs, "main": main}, "labels"))
    return out


def slot_programs():
    """scratch slots spread over main and a subroutine, crossing the 256 limit: the outcome must be a rejection
    or a text whose load/store immediates fit a uint8"""
    out = []
    for nmain, nsub in ((10, 10), (128, 128), (200, 55), (200, 56), (200, 57), (150, 150), (255, 0), (255, 1), (256, 0),
                        (0, 256), (1, 256), (100, 200)):
        mvars = {"m%d" % i: "u" for i in range(nmain)}
        main = ["Seq"] + [["Store", v, ["Int", 1]] for v in mvars]
        subs = {}
        if nsub:
            locs = ["s%d" % i for i in range(nsub)]
            body = ["Seq"] + [["Store", v, ["Int", 2]] for v in locs] + [["Pop", ["Load", locs[-1]]]]
            subs["f"] = {"params": [], "ret": "none", "body": body, "locals": locs, "init_locals": False}
            main.append(["Call", "f"])
        main += [["Pop", ["Load", v]] for v in list(mvars)[:1]] + [["Int", 1]]
        out.append((nmain + nsub, {"mode": "A", "vars": mvars, "subs": subs, "main": main}, "slots"))
    return out


def run(tier):
    global _CFGS, _CTOR
    rep = common.Report(PID, tier)
    rep.rule = ("every program text emitted for the recipe drivers, the constructor sweep (every public constructor x "
                "boundary immediates) and the label-stress shapes, under every version x mode; each text is parsed "
                "by the independent assembler front-end + langspec table and its CFG is walked exhaustively")
    vs = (2, 3, 4, 5, 6, 7, 8, 9, 10)
    _CFGS = [rb.Cfg(v, "A") for v in vs] + [rb.Cfg(v, "S") for v in ((2, 6, 10) if tier == "quick" else vs)]
    _CFGS += [rb.Cfg(8, "A", frame_pointers=False), rb.Cfg(6, "A", scratch_slots=True)]
    rep.bounds["configs"] = [repr(c) for c in _CFGS]
    items = []
    n_full = 2 if tier == "quick" else 3
    g = gen_ctrl.Grammar()
    for n, b in g.programs(n_full):
        items.append((n, gen_ctrl.make_program(b, "implicit"), "ctrl"))
        if "retv" not in str(b):
            items.append((n, gen_ctrl.make_sub_program(b), "ctrl-sub"))
    bg = gen_ctrl.Grammar(gen_ctrl.BARE_ATOMS, gen_ctrl.FULL_COMPOUNDS, gen_ctrl.BARE_CONDS)
    for n, b in bg.programs(3):
        items.append((n, gen_ctrl.make_bare_program(b, "approve"), "bare"))
    for size, prog, _inputs, _mv in gen_expr.e1_programs():
        items.append((size, prog, "expr"))
    for size, prog, _inputs, _mv in gen_expr.e2_programs(2):
        items.append((size, prog, "expr2"))
    for size, prog, _inputs, _mv in gen_reads.programs():
        items.append((size, prog, "reads"))
    items.extend(label_programs(tier))
    items.extend(slot_programs())
    # return analysis: every {returns, falls through} assignment over conditional chains closing a routine
    for size, prog, _inputs, lab in gen_ctrl.return_chains(4 if tier == "thorough" else 3):
        items.append((size, prog, "return-chain"))
    rep.bounds["recipes"] = len(items)
    for sh in common.pmap_shards(_worker_recipes, items, order_seed=rep.seed):
        rep.merge(sh)
    ents = gen_ctor.entries()
    _CTOR = dict(ents)
    rep.bounds["constructors"] = len(ents)
    for sh in common.pmap_shards(_worker_ctor, [n for n, _t in ents], order_seed=rep.seed):
        rep.merge(sh)
    # many frame locals: ABI values inside plain and ABI-returning subroutines around the 128-cell frame limit
    from . import c10
    nfl = 0
    for n in (126, 127, 128, 129, 130, 200):
        for placement in ("sub", "abisub"):
            for cfg in (rb.Cfg(8, "A"), rb.Cfg(10, "A"), rb.Cfg(8, "A", frame_pointers=False)):
                case = {"n": n, "req": "none", "placement": placement, "kind": "abi", "cfg": cfg.to_json()}
                try:
                    text = rb.compile_cfg(c10.build_case(case)[0], cfg)
                except drive.PT_ERRORS:
                    rep.add("frame_locals_pterr")
                    continue
                issues, p = legality(text, cfg)
                nfl += 1
                rep.add("traces_validated")
                rep.add("instructions_checked", len(p.instrs))
                if issues:
                    out_ = _new_out()
                    _report(out_, issues, text if len(text) < 20000 else text[:20000], cfg, "frame-locals", n, {"frame_locals": case})
                    rep.merge(out_)
    rep.bounds["frame_local_programs"] = nfl
    ritems = router_items(tier)
    rep.bounds["routers"] = len(ritems)
    for sh in common.pmap_shards(_worker_routers, ritems, order_seed=rep.seed):
        rep.merge(sh)
    rep.counters["distinct_nontrivial"] = rep.counters.get("states", 0)
    rep.assumptions = ["langspec table vf/avm/spec.py (anchored by the 185 golden TEAL files upstream CI assembled)",
                       "itxn_field per-field introduction versions other than the txn field version are not modelled"]
    if not rep.outcomes.get("ok") or not rep.outcomes.get("pterr"):
        raise common.MachineryError("vacuous: need both accepted and rejected compilations")
    return rep.finish()


def replay(case):
    cfg = rb.Cfg.from_json(case["cfg"])
    c = case["case"]
    if "frame_locals" in c:
        from . import c10
        text = rb.compile_cfg(c10.build_case(c["frame_locals"])[0], cfg)
    elif "router" in c:
        from . import c08
        texts = c08.programs_for(c["router"], cfg.version)
        text = texts[0] if c["program"] == "approval" else texts[1]
    elif "recipe" in c:
        st, text = drive.compile_recipe(c["recipe"], cfg)
        if st != "ok":
            print("no longer compiles:", st, text)
            return False
    else:
        th = dict(gen_ctor.entries())[c["constructor"]]
        try:
            prog = gen_ctor.wrap(th())
            if c.get("prefix"):
                prog = pt.Seq(pt.Comment("note"), prog)
            text = rb.compile_cfg(prog, cfg)
        except drive.PT_ERRORS as e:
            print("now rejected:", e)
            return False
    issues, _p = legality(text, cfg)
    for i in issues:
        print("issue:", i)
    return bool(issues)
