"""C18 - comments, pragmas, nonces and names never change the code.

Base programs x every insertion point x annotation kind x every text up to a length bound
over an adversarial alphabet.  Oracle: both texts are parsed by the independent grammar;
comment lines dropped, labels alpha-renamed, (for Nonce) the documented byte/pop pair
removed; the instruction streams must then be identical.
"""
import base64
import copy
import itertools

from .. import common, drive
from ..avm import asm
from ..recipe import build as rb
from ..recipe import gen_ctrl

PID = "C18"
ALPHA = ["a", " ", '"', "/", ";", "\\", "\n", "\r", " ", ":"]
NASTY = ["//", "\nint 1\nreturn", "\"; int 1; //", "a\\", "x\r\nerr", " err", "l1:", "b main_l1", "\n#pragma version 2",
         "*/", "\t", "\x00", "\x0b", "\x0c", "\x85", "\x1c", "\x1d", "\x1e", " "]

# long texts made of TEAL-looking words, with lengths around every common line-folding width (a folded or truncated
# comment must stay a comment)
NASTY += [("err " * k).strip() for k in (17, 19, 20, 25, 30, 40, 64, 300)] + \
    ["x" * k + " err" for k in (66, 75, 76, 96, 116, 154, 157, 250, 1020, 4090)] + ["int 0 return " * 200]

_CFGS = None


def norm_stream(p):
    """instruction stream with labels renamed by order of definition"""
    by_pos = sorted(p.labels.items(), key=lambda kv: (kv[1], kv[0]))
    ren = {}
    for name, pos in by_pos:
        ren[name] = "L%d@%d" % (len(ren), pos)
    out = []
    for ins in p.instrs:
        args = []
        for a in ins.args:
            if isinstance(a, str) and a in ren and ins.op in ("b", "bz", "bnz", "callsub"):
                args.append(ren[a])
            elif isinstance(a, list):
                args.append(tuple(ren.get(x, x) if isinstance(x, str) else x for x in a))
            else:
                args.append(a)
        out.append((ins.op, tuple(args)))
    labs = tuple(sorted((ren[n], pos) for n, pos in p.labels.items()))
    return out, labs


def same_code(base_text, ann_text, nonce=None):
    """-> None if equal modulo annotations, else reason"""
    pb = asm.assemble(base_text)
    pa = asm.assemble(ann_text)
    if pa.issues and not pb.issues:
        return "annotated text does not assemble: %s" % (pa.issues[0],)
    sb, lb = norm_stream(pb)
    sa, la = norm_stream(pa)
    if nonce is None:
        if sa == sb and [p for _n, p in la] == [p for _n, p in lb]:
            return None
        if _resolved(pa, None) == _resolved(pb, None):
            return None     # same instructions, every branch designates the same instruction
        return _diff(sb, sa)
    # Nonce: exactly one extra `byte <nonce>; pop` (or none at all when the Nonce sits in code the compiler
    # drops as unreachable, e.g. the step of a For whose body always breaks).  Labels are not instructions: a
    # branch is compared by the INSTRUCTION it targets (the Nonce's own block may add a second label in front of
    # an instruction that already has one).
    rb_ = _resolved(pb, None)
    if _resolved(pa, None) == rb_:
        return None
    for i in range(len(sa) - 1):
        if sa[i][0] in ("byte", "pushbytes") and sa[i][1] == (nonce,) and sa[i + 1] == ("pop", ()):
            if _resolved(pa, i) == rb_:
                return None
    return "no removal of one `byte <nonce>; pop` pair makes the streams equal"


def same_modulo_branches(base_text, ann_text):
    """the two programs are the same sequence of instructions once b / bz / bnz are left out"""
    def core(text):
        return [(i.op, tuple(map(str, i.args))) for i in asm.assemble(text).instrs if i.op not in ("b", "bz", "bnz")]
    try:
        return core(base_text) == core(ann_text)
    except Exception:
        return False


def is_compound(t):
    """a conditional or loop statement (also as the last member of a Seq)"""
    if not isinstance(t, list) or not t:
        return False
    if t[0] in ("If", "IfChain", "Cond", "While", "For"):
        return True
    return t[0] == "Seq" and len(t) > 1 and is_compound(t[-1])


def _last_kind(t):
    if isinstance(t, list) and t and t[0] == "Seq" and len(t) > 1:
        return _last_kind(t[-1])
    return t[0] if isinstance(t, list) and t else None


def differs_only_in_slot_ops(base_text, ann_text, nonce=None):
    """signature of the 'annotation between a store and its load keeps the slot optimiser from cancelling the pair'
    finding: without their store / load instructions (and without the nonce's push-and-pop) the two programs are
    the same instruction sequence (branches compared by opcode only: their targets shift with the pairs)"""
    def core(text):
        out = []
        ins = asm.assemble(text).instrs
        k = 0
        while k < len(ins):
            i = ins[k]
            if i.op in ("store", "load"):
                k += 1
                continue
            if nonce is not None and i.op in ("byte", "pushbytes") and tuple(i.args) == (nonce,) and k + 1 < len(ins) and ins[k + 1].op == "pop":
                k += 2
                continue
            out.append((i.op,) if i.op in ("b", "bz", "bnz", "callsub") else (i.op, tuple(map(str, i.args))))
            k += 1
        return out
    try:
        return core(base_text) == core(ann_text)
    except Exception:
        return False


def _resolved(p, cut):
    """instruction stream with every branch target replaced by the index of the instruction it designates;
    cut = i removes instructions i and i+1 (targets behind them move up by two)"""
    def pos(name):
        t = p.labels.get(name)
        if t is None:
            return name
        if cut is not None and t > cut:
            t = max(cut, t - 2)
        return ("@", t)
    out = []
    for k, ins in enumerate(p.instrs):
        if cut is not None and k in (cut, cut + 1):
            continue
        args = []
        for a in ins.args:
            if isinstance(a, str) and ins.op in ("b", "bz", "bnz", "callsub"):
                args.append(pos(a))
            elif isinstance(a, list):
                args.append(tuple(pos(x) if isinstance(x, str) else x for x in a))
            else:
                args.append(a)
        out.append((ins.op, tuple(args)))
    return out


def _strip_pos(stream):
    out = []
    for op, args in stream:
        out.append((op, tuple(a.split("@")[0] if isinstance(a, str) and a.startswith("L") and "@" in a else a for a in args)))
    return out


def _diff(sb, sa):
    if len(sa) != len(sb):
        return "instruction count changes from %d to %d" % (len(sb), len(sa))
    for i, (x, y) in enumerate(zip(sb, sa)):
        if x != y:
            return "instruction %d changes from %r to %r" % (i, x, y)
    return "label positions change"


# ------------------------------------------------------------------ insertion points
EXPR_TAGS = None


def positions(term, path=()):
    """paths to every sub-term that is an expression or statement"""
    out = []
    if isinstance(term, list) and term and isinstance(term[0], str):
        tag = term[0]
        out.append(path)
        if tag in ("Cond",):
            for i, (c, s) in enumerate(term[1]):
                out += positions(c, path + (1, i, 0))
                out += positions(s, path + (1, i, 1))
        elif tag == "IfChain":
            for i, (c, s) in enumerate(term[1]):
                out += positions(c, path + (1, i, 0))
                out += positions(s, path + (1, i, 1))
            if term[2] is not None:
                out += positions(term[2], path + (2,))
        elif tag in ("Int", "Bytes", "Arg", "Load", "Tick", "TickS", "TxnField", "GlobalField", "Break", "Continue",
                     "Approve", "Reject", "Err"):
            pass
        elif tag == "Store":
            out += positions(term[2], path + (2,))
        elif tag == "Call":
            for i in range(2, len(term)):
                if term[i][0] != "Ref":
                    out += positions(term[i], path + (i,))
        else:
            for i in range(1, len(term)):
                if isinstance(term[i], list):
                    out += positions(term[i], path + (i,))
    return out


def emits_nothing(term):
    """a Seq (of Seqs ...) without any statement, Break and Continue lower to no instruction at all
    (only to edges of the block graph)"""
    if not isinstance(term, list):
        return False
    if term[:1] in (["Break"], ["Continue"]):
        return True
    return term[:1] == ["Seq"] and all(emits_nothing(c) for c in term[1:])


def loop_tail(term, path):
    """is the sub-term at `path` in tail position of a loop body (last statement of the body, or of an arm of a
    conditional that is itself in tail position)?  There the statement's block is followed only by the loop's
    back edge."""
    tail = False
    t = term
    mode = None
    for depth, k in enumerate(path):
        tag = t[0] if isinstance(t, list) and t and isinstance(t[0], str) else None
        if mode == "pairs":
            mode = "pair"       # t is the list of (condition, arm) pairs, k selects one
            t = t[k]
            continue
        if mode == "pair":
            mode = None         # t is one pair: index 0 is the condition, index 1 the arm
            if k == 0:
                tail = False
            t = t[k]
            continue
        if tag in ("Cond", "IfChain"):
            if k == 1:
                mode = "pairs"
            t = t[k]            # k == 2: the else arm of an IfChain keeps the tail flag
            continue
        if tag == "While":
            tail = (k == 2)
        elif tag == "For":
            tail = (k == 4)
        elif tag == "Seq":
            tail = tail and k == len(t) - 1
        elif tag == "If":
            tail = tail and k >= 2
        else:
            tail = False
        t = t[k]
    return tail


def get_at(term, path):
    for k in path:
        term = term[k]
    return term


def _unshare(t):
    if isinstance(t, list):
        return [_unshare(x) for x in t]
    return t


def wrap_at(term, path, fn):
    t = _unshare(term)  # recipe terms may share sub-lists (deepcopy would keep the sharing)
    if not path:
        return fn(t)
    parent = get_at(t, path[:-1])
    parent[path[-1]] = fn(parent[path[-1]])
    return t


def annotate(kind, text):
    if kind == "comment":
        return lambda e: ["Comment", text, e]
    if kind == "comment_after":
        # a Comment as a statement of its own behind the statement (also behind Return / Approve / Reject / Err)
        return lambda e: ["Seq", e, ["CommentS", text]]
    if kind == "comment_before":
        return lambda e: ["Seq", ["CommentS", text], e]
    if kind == "pragma":
        return lambda e: ["Pragma", e]
    if kind == "nonce16":
        return lambda e: ["Nonce", "base16", text, e]
    if kind == "nonce32":
        return lambda e: ["Nonce", "base32", text, e]
    if kind == "nonce64":
        return lambda e: ["Nonce", "base64", text, e]
    raise AssertionError(kind)


def nonce_bytes(kind, text):
    if kind == "nonce16":
        return bytes.fromhex(text[2:] if text.startswith("0x") else text)
    if kind == "nonce32":
        t = text.rstrip("=")
        return base64.b32decode(t + "=" * (-len(t) % 8))
    if kind == "nonce64":
        return base64.b64decode(text)
    return None


_AGAIN_TEXTS = ("plain", "", "00", "ME", "YQ==")


def _compile(prog, cfg):
    return drive.compile_recipe(prog, cfg, "gput")


def _compile_again(prog, cfg):
    """build ONCE, compile the same objects twice (the same tree reached by two compilations, as a helper shared by
    an approval and a clear-state program is): the text of the SECOND compilation"""
    try:
        expr = rb.build(prog, cfg, "gput")
        rb.compile_cfg(expr, cfg)
        return "ok", rb.compile_cfg(expr, cfg)
    except drive.PT_ERRORS as e:
        return "pterr", e
    except Exception as e:
        return "crash", e


def check_variant(base_prog, base_text, ann_prog, cfg, out, meta, nonce=None, again=False):
    cnt, oc = out["counters"], out["outcomes"]
    st, text = _compile_again(ann_prog, cfg) if again else _compile(ann_prog, cfg)
    oc[meta["kind"] + ":" + st] = oc.get(meta["kind"] + ":" + st, 0) + 1
    if st == "crash":
        out["violations"].append({"driver": meta["kind"], "size": len(meta.get("text", "")),
                                  "title": "annotation makes the compiler crash: %r" % (text,),
                                  "recipe": ann_prog, "base": base_prog, "cfg": cfg.to_json(), "meta": meta,
                                  "features": {"kind": meta["kind"], "why": "crash"}})
        return
    if st != "ok":
        return  # rejected annotations (malformed text) are not behaviour
    cnt["traces_validated"] = cnt.get("traces_validated", 0) + 1
    why = same_code(base_text, text, nonce)
    if why:
        def ncond(t):
            return sum(1 for l in t.split("\n") if l.strip().split(" ")[0] in ("bz", "bnz"))
        out["violations"].append({
            "driver": meta["kind"], "size": len(meta.get("text", "")),
            "title": "%s %r at %s: %s (v%d)" % (meta["kind"], meta.get("text"), meta.get("path"), why, cfg.version),
            "recipe": ann_prog, "base": base_prog, "cfg": cfg.to_json(), "meta": meta, "teal": text, "base_teal": base_text,
            "features": {"kind": meta["kind"], "why": why.split(":")[0][:40],
                         "text_has_newline": "\n" in meta.get("text", ""),
                         "wrapped_is_empty_seq": bool(meta.get("wrapped_is_empty_seq")),
                         "standalone_comment": bool(meta.get("standalone_comment")),
                         # the known block-structure findings re-route branches; they never add or drop a
                         # CONDITIONAL branch (which pops its operand)
                         "cond_branches_equal": ncond(base_text) == ncond(text),
                         # (below version 3 an Assert is itself a conditional branch around `err`)
                         "wrapped_is_compound": bool(meta.get("wrapped_is_compound")) or
                         (bool(meta.get("wrapped_is_assert")) and cfg.version < 3),
                         "same_modulo_branches": same_modulo_branches(base_text, text),
                         "optimising_config": bool(cfg.scratch_slots) or (cfg.scratch_slots is None and cfg.version >= 9),
                         "differs_only_in_slot_ops": differs_only_in_slot_ops(base_text, text, nonce),
                         "loop_tail": bool(meta.get("loop_tail"))},
        })


def _worker(items, base):
    out = {"counters": {}, "outcomes": {}, "violations": [], "samples": []}
    for prog, variants in items:
        for cfg in _CFGS:
            st, base_text = _compile(prog, cfg)
            if st != "ok":
                continue
            base_again = None
            for kind, text, path in variants:
                meta = {"kind": kind, "text": text, "path": list(path) if path is not None else None}
                if path is not None:
                    meta["wrapped_is_empty_seq"] = emits_nothing(get_at(prog["main"], path))
                    if kind in ("comment_after", "comment_before"):
                        meta["standalone_comment"] = True
                        meta["wrapped_is_compound"] = is_compound(get_at(prog["main"], path))
                        meta["wrapped_is_assert"] = _last_kind(get_at(prog["main"], path)) in ("Assert", "AssertC")
                        meta["loop_tail"] = loop_tail(prog["main"], path)
                if kind == "subname":
                    ann = copy.deepcopy(prog)
                    for sd in ann["subs"].values():
                        sd["label"] = text
                    check_variant(prog, base_text, ann, cfg, out, meta)
                elif kind == "assert_comment":
                    ann = copy.deepcopy(prog)
                    node = get_at(ann["main"], path)
                    node[0] = "AssertC"
                    node.insert(1, text)
                    check_variant(prog, base_text, ann, cfg, out, meta)
                else:
                    try:
                        nb = nonce_bytes(kind, text)
                    except Exception:
                        nb = None
                        if kind.startswith("nonce"):
                            # malformed payload: must be rejected or harmless; still compare when it compiles
                            pass
                    ann = copy.deepcopy(prog)
                    ann["main"] = wrap_at(prog["main"], path, annotate(kind, text))
                    check_variant(prog, base_text, ann, cfg, out, meta, nonce=nb if kind.startswith("nonce") else None)
                    if text in _AGAIN_TEXTS:
                        # the annotated tree compiled a second time (same objects) against the base compiled twice
                        if base_again is None:
                            base_again = _compile_again(prog, cfg)
                        if base_again[0] == "ok":
                            check_variant(prog, base_again[1], ann, cfg, out, dict(meta, kind=kind, again=True),
                                          nonce=nb if kind.startswith("nonce") else None, again=True)
            out["counters"]["states"] = out["counters"].get("states", 0) + len(variants)
            out["counters"]["transitions"] = out["counters"].get("transitions", 0) + len(variants)
    if items and base % 37 == 0:
        out["samples"].append({"base": items[0][0], "variants": [list(v) for v in items[0][1][:3]]})
    return out


def texts(maxlen):
    out = []
    for n in range(0, maxlen + 1):
        for t in itertools.product(ALPHA, repeat=n):
            out.append("".join(t))
    return out


def base_programs(tier):
    progs = []
    g = gen_ctrl.Grammar()
    for n, b in g.programs(2 if tier == "quick" else 3):
        if n < 2 or gen_ctrl.has_unreachable(b):
            continue
        progs.append(gen_ctrl.make_program(b, "implicit"))
    # a guard arm that ends the program, followed by more work (the arm's successor is not laid out next to it)
    cin = ["Eq", ["Btoi", ["Arg", 0]], ["Int", 1]]
    for term in (["Reject"], ["Err"], ["Approve"]):
        for follow in (["If", ["Int", 1], ["Seq", ["TickS", 1]]],
                       ["If", cin, ["Seq", ["TickS", 1]], ["Seq", ["TickS", 2]]],
                       ["While", ["Lt", ["Load", "ctr"], ["Int", 1]], ["Seq", ["Store", "ctr", ["Int", 1]]]]):
            progs.append({"mode": "A", "vars": {"ctr": "u", "i": "u"}, "subs": {},
                          "main": ["Seq", ["Store", "ctr", ["Int", 0]], ["If", cin, ["Seq", term]], follow,
                                   ["Add", ["Load", "ctr"], ["Int", 1]]]})
    sub = {"params": [["x", "val"]], "ret": "u", "body": ["Seq", ["Assert", ["Load", "x"]], ["Return", ["Add", ["Load", "x"], ["Int", 1]]]],
           "locals": [], "init_locals": False}
    # a conditional with EMPTY arms as the last statement of a loop body (both outcomes lead back to the loop head):
    # annotations are then the only content of an arm
    inc = ["Store", "ctr", ["Add", ["Load", "ctr"], ["Int", 1]]]
    for arms in ([["Seq"]], [["Seq"], ["Seq"]], [["Seq", ["Seq"]]]):
        for loop in ("While", "For"):
            tail_if = ["If", cin] + [list(a) for a in arms]
            if loop == "While":
                lp = ["While", ["Lt", ["Load", "ctr"], ["Int", 2]], ["Seq", inc, tail_if]]
            else:
                lp = ["For", ["Store", "i", ["Int", 0]], ["Lt", ["Load", "i"], ["Int", 2]], ["Seq"], ["Seq", ["Store", "i", ["Add", ["Load", "i"], ["Int", 1]]], tail_if]]
            progs.append({"mode": "A", "vars": {"ctr": "u", "i": "u"}, "subs": {},
                          "main": ["Seq", ["Store", "ctr", ["Int", 0]], lp, ["Add", ["Load", "ctr"], ["Int", 1]]]})
    # two DIFFERENT subroutines: the subname variants give both the same name (names are annotations, the call
    # targets must not depend on them)
    sub2 = {"params": [["x", "val"]], "ret": "u", "body": ["Seq", ["Return", ["Mul", ["Load", "x"], ["Int", 3]]]],
            "locals": [], "init_locals": False}
    progs.append({"mode": "A", "vars": {}, "subs": {"f": sub, "g": sub2},
                  "main": ["Seq", ["Assert", ["Call", "f", ["Int", 1]]], ["If", ["Call", "g", ["Int", 2]], ["Seq", ["TickS", 1]]],
                           ["Eq", ["Add", ["Call", "f", ["Int", 7]], ["Call", "g", ["Int", 7]]], ["Int", 29]]]})
    return progs


def run(tier):
    global _CFGS
    rep = common.Report(PID, tier)
    rep.rule = ("(a) a fixed set of probe programs x every insertion point x every text of length <= L over a 10-character "
                "adversarial alphabet x {Comment, Assert comment, subroutine name}; (b) every base recipe x every insertion "
                "point x {Comment, Pragma, Nonce(3 bases)} x a list of nasty texts / valid payloads")
    # version 2 is there for the Assert fallback (no `assert` opcode: bnz/err), version 3 for the first `assert`
    # (the slot optimiser runs by default from version 9 and on request below)
    _CFGS = [rb.Cfg(2, "A"), rb.Cfg(6, "A"), rb.Cfg(8, "A"), rb.Cfg(6, "A", scratch_slots=True), rb.Cfg(10, "A")] if tier == "quick" else \
        [rb.Cfg(2, "A"), rb.Cfg(3, "A"), rb.Cfg(4, "A"), rb.Cfg(6, "A"), rb.Cfg(8, "A"), rb.Cfg(10, "A", scratch_slots=False),
         rb.Cfg(6, "A", scratch_slots=True), rb.Cfg(9, "A"), rb.Cfg(10, "A")]
    L = 3 if tier == "quick" else 4
    all_texts = texts(L)
    rep.bounds["text_max_len"] = L
    rep.bounds["texts"] = len(all_texts)
    progs = base_programs(tier)
    rep.bounds["base_programs"] = len(progs)
    items = []
    # (a) text-exhaustive on probe programs
    probe = progs[-1]
    ppos = positions(probe["main"])
    assert_paths = [p for p in ppos if get_at(probe["main"], p)[0] == "Assert"]
    chunk = 200
    for i in range(0, len(all_texts), chunk):
        vs = []
        for t in all_texts[i:i + chunk]:
            vs.append(("subname", t, None))
            vs.append(("comment", t, ppos[1 % len(ppos)]))
            vs.append(("comment", t, ppos[-1]))
            vs.append(("assert_comment", t, assert_paths[0]))
        items.append((probe, vs))
    # (b) position-exhaustive on all base programs
    payloads = {"nonce16": ["", "00", "0xabcd", "ff" * 33], "nonce32": ["", "ME", "MFRGG===", "MFRGG"], "nonce64": ["", "YQ==", "YWJj", "//8="]}
    for prog in progs:
        vs = []
        pos = positions(prog["main"])
        for path in pos:
            for t in NASTY + ["plain"]:
                vs.append(("comment", t, path))
            for t in ("plain", "a\nint 0 // b"):
                vs.append(("comment_after", t, path))
                vs.append(("comment_before", t, path))
            vs.append(("pragma", "", path))
            for kind, pl in payloads.items():
                for t in pl:
                    vs.append((kind, t, path))
            if get_at(prog["main"], path)[0] == "Assert":
                for t in NASTY:
                    vs.append(("assert_comment", t, path))
        if prog.get("subs"):
            for t in NASTY:
                vs.append(("subname", t, None))
        items.append((prog, vs))
    for sh in common.pmap_shards(_worker, items, shard_size=1, order_seed=rep.seed):
        rep.merge(sh)
    rep.counters["distinct_nontrivial"] = rep.counters.get("states", 0)
    rep.assumptions = ["TEAL tokenizer/line splitting as in go-algorand (bufio.ScanLines: only \\n ends a line)"]
    if not rep.counters.get("traces_validated"):
        raise common.MachineryError("vacuous")
    return rep.finish()


def replay(case):
    cfg = rb.Cfg.from_json(case["cfg"])
    st, base_text = _compile(case["base"], cfg)
    out = {"counters": {}, "outcomes": {}, "violations": [], "samples": []}
    meta = case["meta"]
    nb = None
    if meta["kind"].startswith("nonce"):
        try:
            nb = nonce_bytes(meta["kind"], meta["text"])
        except Exception:
            nb = None
    if meta.get("again"):
        st, base_text = _compile_again(case["base"], cfg)
    check_variant(case["base"], base_text, case["recipe"], cfg, out, meta, nonce=nb, again=bool(meta.get("again")))
    # a deviation that is one of the recorded findings of the unchanged tree is named as such, not "reproduced"
    findings = common.load_findings()
    fresh = []
    for v in out["violations"]:
        f = common.match_finding(findings, PID, v)
        if f is not None:
            print("deviates, as recorded in known finding %s: %s" % (f["id"], v["title"]))
        else:
            fresh.append(v)
            print("still violates:", v["title"])
    return bool(fresh)
