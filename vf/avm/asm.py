"""Independent TEAL assembler front-end: text -> instruction list + legality report."""
from . import spec
from .tokens import (
    Bad,
    tokens_from_line,
    parse_bytes_args,
    parse_int,
    parse_uint,
    parse_addr,
    parse_method,
)


class Instr:
    __slots__ = ("op", "args", "line", "raw")

    def __init__(self, op, args, line, raw):
        self.op, self.args, self.line, self.raw = op, args, line, raw

    def __repr__(self):
        return "%s %r @%d" % (self.op, self.args, self.line)


class Program:
    def __init__(self):
        self.version = None
        self.instrs = []
        self.labels = {}  # name -> index into instrs
        self.label_lines = {}
        self.issues = []  # (line, message)
        self.comments = 0
        self.nlines = 0

    def ok(self):
        return not self.issues

    def stream(self):
        """Version-independent key for memoising executions."""
        return tuple((i.op, tuple(map(_freeze, i.args))) for i in self.instrs), tuple(sorted(self.labels.items()))


def _freeze(a):
    if isinstance(a, list):
        return tuple(_freeze(x) for x in a)
    return a


def split_lines(text):
    """bufio.ScanLines: split on \n, drop one trailing \r."""
    lines = text.split("\n")
    if lines and lines[-1] == "":
        lines.pop()
    return [l[:-1] if l.endswith("\r") else l for l in lines]


def assemble(text, mode=None):
    """Parse TEAL text.  mode: 'A', 'S' or None (do not check modes)."""
    p = Program()
    lines = split_lines(text)
    p.nlines = len(lines)
    seen_op = False
    refs = []  # (instr index, label, line)
    for ln, line in enumerate(lines, 1):
        try:
            toks = tokens_from_line(line)
        except Exception as e:  # tokenizer never raises, but be safe
            p.issues.append((ln, "tokenizer: %s" % e))
            continue
        if not toks:
            if line.strip().startswith("//"):
                p.comments += 1
            continue
        # split on ';'
        groups = [[]]
        for t in toks:
            if t == ";":
                groups.append([])
            else:
                groups[-1].append(t)
        for g in groups:
            if not g:
                continue
            if g[0].startswith("#"):
                if g[0] == "#pragma":
                    if len(g) == 3 and g[1] == "version":
                        if seen_op or p.version is not None:
                            p.issues.append((ln, "#pragma version after first op / repeated"))
                        try:
                            p.version = parse_uint(g[2], 64)
                        except Bad:
                            p.issues.append((ln, "bad pragma version"))
                    elif len(g) >= 2 and g[1] == "typetrack":
                        pass
                    else:
                        p.issues.append((ln, "unsupported pragma %r" % (g,)))
                else:
                    p.issues.append((ln, "unknown directive %r" % g[0]))
                continue
            if g[0].endswith(":"):
                lab = g[0][:-1]
                if lab == "":
                    p.issues.append((ln, "empty label"))
                if lab in p.labels:
                    p.issues.append((ln, "duplicate label %r" % lab))
                else:
                    p.labels[lab] = len(p.instrs)
                    p.label_lines[lab] = ln
                seen_op = True
                g = g[1:]
                if not g:
                    continue
            seen_op = True
            _parse_instr(p, g, ln, refs, mode)
    if p.version is None:
        p.issues.append((0, "no #pragma version (would assemble as v1)"))
        p.version = 1
    for idx, lab, ln in refs:
        if lab not in p.labels:
            p.issues.append((ln, "undefined label %r" % lab))
        elif p.labels[lab] <= idx and p.version < 4:
            p.issues.append((ln, "backward branch to %r needs v4" % lab))
    return p


def _field(p, group, name, ln, opname):
    v = p.version or 1
    if group in ("txn", "txna"):
        f = spec.TXN_FIELDS.get(name)
        if f is None:
            p.issues.append((ln, "%s unknown field %r" % (opname, name)))
            return
        if f[1] > v:
            p.issues.append((ln, "%s field %s needs v%d" % (opname, name, f[1])))
        if group == "txn" and f[2]:
            p.issues.append((ln, "%s array field %s used without index" % (opname, name)))
        if group == "txna" and not f[2]:
            p.issues.append((ln, "%s non-array field %s used with index" % (opname, name)))
        return
    if group == "itxn_field":
        f = spec.TXN_FIELDS.get(name)
        if f is None:
            p.issues.append((ln, "itxn_field unknown field %r" % name))
            return
        if name in spec.ITXN_UNSETTABLE:
            p.issues.append((ln, "itxn_field cannot set %s" % name))
        if f[1] > v:
            p.issues.append((ln, "itxn_field %s needs v%d" % (name, f[1])))
        return
    if group == "global":
        f = spec.GLOBAL_FIELDS.get(name)
        if f is None:
            p.issues.append((ln, "global unknown field %r" % name))
            return
        if f[1] > v:
            p.issues.append((ln, "global %s needs v%d" % (name, f[1])))
        return ("globalmode", f[2])
    tbl = spec.FIELD_GROUPS[group]
    f = tbl.get(name)
    if f is None:
        p.issues.append((ln, "%s unknown field %r" % (opname, name)))
    elif f[1] > v:
        p.issues.append((ln, "%s field %s needs v%d" % (opname, name, f[1])))


def _parse_instr(p, g, ln, refs, mode):
    name, rest = g[0], g[1:]
    sp = spec.OPS.get(name)
    if sp is None:
        p.issues.append((ln, "unknown opcode %r" % name))
        p.instrs.append(Instr(name, list(rest), ln, g))
        return
    v = p.version or 1
    if sp.ver > v:
        p.issues.append((ln, "%s needs v%d (program v%d)" % (name, sp.ver, v)))
    if mode is not None and mode not in sp.modes:
        p.issues.append((ln, "%s not available in mode %s" % (name, mode)))
    args = []
    imm = sp.imm
    # `txn F i` / `gtxn t F i` spellings are accepted by the assembler as txna/gtxna
    if name in ("txn", "itxn", "gtxns") and len(rest) == 2:
        imm = ("field:txna", "u8")
    elif name in ("gtxn", "gitxn") and len(rest) == 3:
        imm = ("u8", "field:txna", "u8")
    pos = 0
    try:
        for kind in imm:
            if kind in ("ints", "bytess", "labels"):
                if kind == "ints":
                    vals = [parse_int_tok(t) for t in rest[pos:]]
                    pos = len(rest)
                elif kind == "labels":
                    vals = list(rest[pos:])
                    for lab in vals:
                        refs.append((len(p.instrs), lab, ln))
                    pos = len(rest)
                else:
                    vals = []
                    while pos < len(rest):
                        val, used = parse_bytes_args(rest[pos:])
                        vals.append(val)
                        pos += used
                args.append(vals)
                continue
            if kind == "bytes":
                val, used = parse_bytes_args(rest[pos:])
                args.append(val)
                pos += used
                continue
            if pos >= len(rest):
                raise Bad("%s: missing immediate (%s)" % (name, kind))
            t = rest[pos]
            pos += 1
            if kind == "u8":
                args.append(parse_uint(t, 8))
            elif kind == "i8":
                neg = t.startswith("-")
                val = parse_uint(t[1:] if neg else t, 8)
                val = -val if neg else val
                if not -128 <= val <= 127:
                    raise Bad("%s: int8 out of range %s" % (name, t))
                args.append(val)
            elif kind == "uint":
                args.append(parse_int_tok(t))
            elif kind == "int":
                args.append(parse_int(t))
            elif kind == "addr":
                args.append(parse_addr(t))
            elif kind == "method":
                args.append(parse_method(t))
            elif kind == "label":
                args.append(t)
                refs.append((len(p.instrs), t, ln))
            elif kind.startswith("field:"):
                grp = kind[6:]
                r = _field(p, grp, t, ln, name)
                if r and r[0] == "globalmode" and mode is not None and mode not in r[1]:
                    p.issues.append((ln, "global %s not available in mode %s" % (t, mode)))
                args.append(t)
            else:
                raise Bad("spec error: immediate kind %s" % kind)
        if pos != len(rest):
            raise Bad("%s: %d extra immediate(s): %r" % (name, len(rest) - pos, rest[pos:]))
    except Bad as e:
        p.issues.append((ln, str(e)))
    # assembler-level range rules
    try:
        if name == "substring" and len(args) == 2 and args[0] > args[1]:
            p.issues.append((ln, "substring end is before start"))
        if name == "bury" and args and args[0] == 0:
            p.issues.append((ln, "bury 0 always fails"))
        if name in ("intcblock", "bytecblock") and args and len(args[0]) > 256:
            p.issues.append((ln, "%s with more than 256 constants" % name))
    except Exception:
        pass
    # normalise spelling variants
    opn = name
    if name in ("txn", "itxn") and len(args) == 2:
        opn = name + "a"
    elif name == "gtxns" and len(args) == 2:
        opn = "gtxnsa"
    elif name in ("gtxn", "gitxn") and len(args) == 3:
        opn = name + "a"
    p.instrs.append(Instr(opn, args, ln, g))


def parse_int_tok(t):
    if t.startswith("TMPL_"):
        return ("TMPL", t)
    return parse_uint(t, 64)


def check_flow(p):
    """Exhaustive walk of the CFG from the entry and each callsub target:
    every path must end in return/retsub/err, never run off the end of the text
    (pc == len is allowed only for the *main* routine on v2+, where it is an
    implicit 'end with stack top' - PyTeal never relies on it, so C04 flags it),
    and never flow from one routine into another routine's label."""
    issues = []
    n = len(p.instrs)
    sub_entries = set()
    for ins in p.instrs:
        if ins.op == "callsub" and ins.args and ins.args[0] in p.labels:
            sub_entries.add(p.labels[ins.args[0]])
    owner = {}

    def walk(entry, rid, is_sub):
        stack = [entry]
        while stack:
            pc = stack.pop()
            if pc >= n:
                issues.append((0, "routine %s runs off the end of the program" % rid))
                continue
            if pc in owner:
                if owner[pc] != rid:
                    issues.append((p.instrs[pc].line, "code shared between routines %s and %s" % (owner[pc], rid)))
                continue
            if pc in sub_entries and pc != entry:
                issues.append((p.instrs[pc].line, "routine %s falls into subroutine entry" % rid))
                continue
            owner[pc] = rid
            ins = p.instrs[pc]
            o = ins.op
            if o in ("err", "return"):
                continue
            if o == "retsub":
                if not is_sub:
                    issues.append((ins.line, "retsub reachable in main routine"))
                continue
            if o == "b":
                t = p.labels.get(ins.args[0]) if ins.args else None
                if t is not None:
                    stack.append(t)
                continue
            if o in ("bz", "bnz"):
                t = p.labels.get(ins.args[0]) if ins.args else None
                if t is not None:
                    stack.append(t)
                stack.append(pc + 1)
                continue
            if o in ("switch", "match"):
                for lab in ins.args[0] if ins.args else []:
                    t = p.labels.get(lab)
                    if t is not None:
                        stack.append(t)
                stack.append(pc + 1)
                continue
            stack.append(pc + 1)

    walk(0, "main", False)
    for e in sorted(sub_entries):
        walk(e, "sub@%d" % e, True)
    return issues
