"""Conformance self-test of the reference AVM (run by setup_cmd and before every check).

(i)  single-op vectors transcribed from the AVM opcode specification, including the
     failure edges the oracles rely on;
(ii) small programs with known results (the behavioural expectations of the upstream
     graviton tests: exp, factorial, fibonacci, gcd ...), written directly in TEAL;
(iii) the golden .teal files of the repository must assemble without a legality issue
     at their pragma version and show no stack-discipline violation in absint.
"""
import glob
import os
import sys

from . import asm, interp

M = (1 << 64) - 1

# (program body, expected)  expected: list = final stack when the program is run to its end with "int 1; return"
# appended and stack captured; "FAIL" = must fail.
V = [
    ("int 1; int 2; +", [3]),
    ("int 18446744073709551615; int 1; +", "FAIL"),
    ("int 1; int 2; -", "FAIL"),
    ("int 5; int 2; -", [3]),
    ("int 4294967296; int 4294967296; *", "FAIL"),
    ("int 4294967295; int 4294967297; *", [M]),
    ("int 7; int 2; /", [3]),
    ("int 7; int 0; /", "FAIL"),
    ("int 7; int 0; %", "FAIL"),
    ("int 7; int 4; %", [3]),
    ("int 2; int 3; <", [1]),
    ("int 3; int 3; <=", [1]),
    ("int 3; int 3; >", [0]),
    ("int 3; int 3; >=", [1]),
    ("int 0; int 5; &&", [0]),
    ("int 2; int 5; &&", [1]),
    ("int 0; int 0; ||", [0]),
    ("int 0; int 9; ||", [1]),
    ("int 1; byte 0x01; ==", "FAIL"),
    ("byte 0x01; byte 0x01; ==", [1]),
    ("byte 0x01; byte 0x0001; ==", [0]),
    ("byte 0x01; byte 0x02; !=", [1]),
    ("int 0; !", [1]),
    ("int 7; !", [0]),
    ("int 0; ~", [M]),
    ("int 6; int 3; &", [2]),
    ("int 6; int 3; |", [7]),
    ("int 6; int 3; ^", [5]),
    ("byte 0x; len", [0]),
    ("byte 0x0102; len", [2]),
    ("int 258; itob", [b"\x00\x00\x00\x00\x00\x00\x01\x02"]),
    ("byte 0x0102; btoi", [258]),
    ("byte 0x; btoi", [0]),
    ("byte 0x010203040506070809; btoi", "FAIL"),
    ("int 18446744073709551615; int 2; mulw", [1, M - 1]),
    ("int 18446744073709551615; int 1; addw", [1, 0]),
    ("int 0; int 10; int 0; int 3; divmodw", [0, 3, 0, 1]),
    ("int 1; int 0; int 0; int 2; divmodw", [0, 1 << 63, 0, 0]),
    ("int 1; int 0; int 0; int 0; divmodw", "FAIL"),
    ("int 0; int 10; int 3; divw", [3]),
    ("int 1; int 0; int 1; divw", "FAIL"),
    ("int 1; int 0; int 0; divw", "FAIL"),
    ("int 2; int 10; exp", [1024]),
    ("int 0; int 0; exp", "FAIL"),
    ("int 0; int 5; exp", [0]),
    ("int 7; int 0; exp", [1]),
    ("int 2; int 64; exp", "FAIL"),
    ("int 1; int 1000; exp", [1]),
    ("int 2; int 64; expw", [1, 0]),
    ("int 2; int 128; expw", "FAIL"),
    ("int 0; int 0; expw", "FAIL"),
    ("int 1; int 63; shl", [1 << 63]),
    ("int 3; int 63; shl", [1 << 63]),
    ("int 1; int 64; shl", "FAIL"),
    ("int 8; int 2; shr", [2]),
    ("int 8; int 64; shr", "FAIL"),
    ("int 17; sqrt", [4]),
    ("int 18446744073709551615; sqrt", [4294967295]),
    ("int 0; bitlen", [0]),
    ("int 8; bitlen", [4]),
    ("byte 0x000100; bitlen", [9]),
    ("byte 0x; bitlen", [0]),
    ("byte 0x0100; bsqrt", [b"\x10"]),
    ("byte 0x01; byte 0xff; b+", [b"\x01\x00"]),
    ("byte 0x01; byte 0x02; b-", "FAIL"),
    ("byte 0x02; byte 0x02; b-", [b""]),
    ("byte 0x0100; byte 0x01; b-", [b"\xff"]),
    ("byte 0x10; byte 0x10; b*", [b"\x01\x00"]),
    ("byte 0x10; byte 0x; b/", "FAIL"),
    ("byte 0x10; byte 0x03; b/", [b"\x05"]),
    ("byte 0x10; byte 0x03; b%", [b"\x01"]),
    ("byte 0x10; byte 0x00; b%", "FAIL"),
    ("byte 0x0001; byte 0x01; b==", [1]),
    ("byte 0x0001; byte 0x02; b<", [1]),
    ("byte 0x02; byte 0x0001; b>", [1]),
    ("byte 0x02; byte 0x0002; b<=", [1]),
    ("byte 0x02; byte 0x0002; b>=", [1]),
    ("byte 0x02; byte 0x0002; b!=", [0]),
    ("byte 0xff; byte 0x0f0f; b|", [b"\x0f\xff"]),
    ("byte 0xff; byte 0x0f0f; b&", [b"\x00\x0f"]),
    ("byte 0xff; byte 0x0f0f; b^", [b"\x0f\xf0"]),
    ("byte 0x00ff; b~", [b"\xff\x00"]),
    ("int 3; bzero", [b"\x00\x00\x00"]),
    ("int 4097; bzero", "FAIL"),
    ("byte 0x01; byte 0x02; concat", [b"\x01\x02"]),
    ("int 4096; bzero; byte 0x01; concat", "FAIL"),
    ("byte 0x0102030405; substring 1 3", [b"\x02\x03"]),
    ("byte 0x0102030405; substring 1 6", "FAIL"),
    ("byte 0x0102030405; int 1; int 3; substring3", [b"\x02\x03"]),
    ("byte 0x0102030405; int 3; int 1; substring3", "FAIL"),
    ("byte 0x0102030405; int 5; int 5; substring3", [b""]),
    ("byte 0x0102030405; int 5; int 6; substring3", "FAIL"),
    ("byte 0x0102030405; extract 1 2", [b"\x02\x03"]),
    ("byte 0x0102030405; extract 1 0", [b"\x02\x03\x04\x05"]),
    ("byte 0x0102030405; extract 5 0", [b""]),
    ("byte 0x0102030405; extract 6 0", "FAIL"),
    ("byte 0x0102030405; extract 4 2", "FAIL"),
    ("byte 0x0102030405; int 1; int 0; extract3", [b""]),
    ("byte 0x0102030405; int 1; int 4; extract3", [b"\x02\x03\x04\x05"]),
    ("byte 0x0102030405; int 1; int 5; extract3", "FAIL"),
    ("byte 0x0102030405; int 6; int 0; extract3", "FAIL"),
    ("byte 0x0102030405; int 1; extract_uint16", [0x0203]),
    ("byte 0x0102030405; int 1; extract_uint32", [0x02030405]),
    ("byte 0x0102030405; int 2; extract_uint32", "FAIL"),
    ("byte 0x0102030405060708; int 0; extract_uint64", [0x0102030405060708]),
    ("byte 0x0102030405; byte 0xaabb; replace2 1", [b"\x01\xaa\xbb\x04\x05"]),
    ("byte 0x0102030405; byte 0xaabb; replace2 4", "FAIL"),
    ("byte 0x0102030405; int 3; byte 0xaabb; replace3", [b"\x01\x02\x03\xaa\xbb"]),
    ("byte 0x0102; int 1; getbyte", [2]),
    ("byte 0x0102; int 2; getbyte", "FAIL"),
    ("byte 0x0102; int 0; int 255; setbyte", [b"\xff\x02"]),
    ("byte 0x0102; int 0; int 256; setbyte", "FAIL"),
    ("int 4; int 2; getbit", [1]),
    ("int 4; int 64; getbit", "FAIL"),
    ("byte 0x80; int 0; getbit", [1]),
    ("byte 0x01; int 7; getbit", [1]),
    ("byte 0x01; int 8; getbit", "FAIL"),
    ("int 0; int 3; int 1; setbit", [8]),
    ("int 15; int 0; int 0; setbit", [14]),
    ("byte 0x00; int 0; int 1; setbit", [b"\x80"]),
    ("byte 0x00; int 7; int 1; setbit", [b"\x01"]),
    ("byte 0xff; int 1; int 0; setbit", [b"\xbf"]),
    ("byte 0x00; int 7; int 2; setbit", "FAIL"),
    ("int 1; int 2; pop", [1]),
    ("int 1; dup", [1, 1]),
    ("int 1; int 2; dup2", [1, 2, 1, 2]),
    ("int 1; int 2; swap", [2, 1]),
    ("int 1; int 2; int 3; dig 2", [1, 2, 3, 1]),
    ("int 1; int 2; int 3; dig 3", "FAIL"),
    ("int 1; int 2; int 3; cover 2", [3, 1, 2]),
    ("int 1; int 2; int 3; cover 3", "FAIL"),
    ("int 1; int 2; int 3; uncover 2", [2, 3, 1]),
    ("int 1; int 2; int 3; uncover 0", [1, 2, 3]),
    ("int 1; int 2; int 3; bury 2", [3, 2]),
    ("int 1; int 2; int 3; bury 1", [1, 3]),
    ("int 1; int 2; int 3; bury 3", "FAIL"),
    ("int 7; dupn 2", [7, 7, 7]),
    ("int 7; dupn 0", [7]),
    ("int 1; int 2; int 3; popn 2", [1]),
    ("int 1; popn 2", "FAIL"),
    ("int 10; int 20; int 1; select", [20]),
    ("int 10; int 20; int 0; select", [10]),
    ("byte 0x61; int 20; int 5; select", [20]),
    ("int 5; store 3; load 3", [5]),
    ("load 9", [0]),
    ("int 3; int 5; stores; int 3; loads", [5]),
    ("int 256; loads", "FAIL"),
    ("int 0; assert", "FAIL"),
    ("int 2; assert; int 1", [1]),
    ("err", "FAIL"),
    ("byte 0x61; sha256; len", [32]),
    ("byte 0x; sha512_256", [bytes.fromhex("c672b8d1ef56ed28ab87c3622c5114069bdd3ad7b8f9737498d0c01ecef0967a")]),
    ("byte 0x; sha256", [bytes.fromhex("e3b0c44298fc1c149afbf4c8996fb92427ae41e4649b934ca495991b7852b855")]),
    ("byte 0x; keccak256", [bytes.fromhex("c5d2460186f7233c927e7db2dcc703c0e500b653ca82273b7bfad8045d85a470")]),
    ("byte 0x; sha3_256", [bytes.fromhex("a7ffc6f8bf1ed76651c14756a061d662f580ff4de43b49fa82d80a4b80f8434a")]),
    ("int 1; bnz l1; err; l1:; int 5", [5]),
    ("int 0; bnz l1; int 6; b l2; l1:; int 5; l2:", [6]),
    ("int 0; bz l1; err; l1:; int 5", [5]),
    ("int 1; switch a b; int 9; b e; a:; int 10; b e; b:; int 11; e:", [11]),
    ("int 5; switch a b; int 9; b e; a:; int 10; b e; b:; int 11; e:", [9]),
    ("byte 0x61; byte 0x62; byte 0x62; match a b; int 9; b e; a:; int 10; b e; b:; int 11; e:", [11]),
    ("intcblock 5 6 7 8 9; intc_0; intc_3; intc 4", [5, 8, 9]),
    ("bytecblock 0x61 0x62; bytec_1; bytec 0", [b"b", b"a"]),
    ("intcblock 5; intc_1", "FAIL"),
    ("pushint 77; pushbytes 0x6162", [77, b"ab"]),
    ("pushints 1 2 3", [1, 2, 3]),
    ("pushbytess 0x61 \"b\"", [b"a", b"b"]),
    ("byte \"a\\x62\\n\\\"\"", [b"ab\n\""]),
    ("byte base64(YWI=); byte b64 YWI=; byte base32(MFRA); byte b32 MFRA====", [b"ab", b"ab", b"ab", b"ab"]),
    ("int OptIn; int DeleteApplication; int pay; int appl; int axfer", [1, 5, 1, 6, 4]),
    ("int 0x10; int 010", [16, 8]),
    ("addr AAAAAAAAAAAAAAAAAAAAAAAAAAAAAAAAAAAAAAAAAAAAAAAAAAAAY5HFKQ; len", [32]),
    ("method \"add(uint64,uint64)uint64\"", [bytes.fromhex("fe6bdf69")]),
    # subroutines
    ("int 3; callsub f; int 1; +; b e; f:; int 2; *; retsub; e:", [7]),
    ("retsub", "FAIL"),
    ("int 3; int 4; callsub f; b e; f:; proto 2 1; frame_dig -2; frame_dig -1; +; retsub; e:", [7]),
    ("int 9; int 3; int 4; callsub f; b e; f:; proto 2 1; frame_dig -2; frame_dig -1; +; int 100; retsub; e:", [9, 7]),
    ("int 3; callsub f; b e; f:; proto 1 1; int 0; dupn 2; int 8; frame_bury 0; int 9; frame_bury 2; frame_dig 2; frame_dig -1; +; frame_bury 0; retsub; e:", [12]),
    ("int 3; callsub f; b e; f:; proto 1 2; int 5; retsub; e:", "FAIL"),
    ("int 3; callsub f; b e; f:; proto 2 0; retsub; e:", "FAIL"),
    ("int 3; callsub f; b e; f:; int 1; proto 1 0; retsub; e:", "FAIL"),
    ("int 3; callsub f; b e; f:; proto 1 0; frame_dig 0; retsub; e:", "FAIL"),
    ("int 3; callsub f; b e; f:; proto 1 0; frame_dig -2; retsub; e:", "FAIL"),
    ("int 3; callsub f; int 1; b e; f:; proto 1 0; int 7; int 8; retsub; e:", [1]),
    ("int 1; frame_dig 0", "FAIL"),
    ("int 1; int 2; int 3; callsub f; b e; f:; proto 3 3; frame_dig -1; frame_dig -2; frame_dig -3; retsub; e:", [3, 2, 1]),
]

# application-mode vectors: (body, ctx kwargs, expected stack or FAIL, expected effects or None)
VA = [
    ("byte 0x6b; int 5; app_global_put; byte 0x6b; app_global_get", {}, [5], [("gput", b"k", 5)]),
    ("byte 0x6b; app_global_get", {}, [0], []),
    ("int 0; byte 0x6b; app_global_get_ex", {"globals_": {b"k": b"v"}}, [b"v", 1], []),
    ("int 0; byte 0x6a; app_global_get_ex", {"globals_": {b"k": b"v"}}, [0, 0], []),
    ("byte 0x6b; app_global_del; int 0; byte 0x6b; app_global_get_ex", {"globals_": {b"k": 1}}, [0, 0], [("gdel", b"k")]),
    ("byte 0x61; log; byte 0x62; log", {}, [], [("log", b"a"), ("log", b"b")]),
    ("txn NumAppArgs; txna ApplicationArgs 1; int 0; txnas ApplicationArgs", {"args": [b"x", b"y"]}, [2, b"y", b"x"], []),
    ("txna ApplicationArgs 2", {"args": [b"x", b"y"]}, "FAIL", None),
    ("txn OnCompletion; txn ApplicationID; global GroupSize; txn GroupIndex", {}, [0, 7, 1, 0], []),
    ("itxn_begin; int pay; itxn_field TypeEnum; int 5; itxn_field Amount; itxn_submit", {}, [],
     [("itxn", [{"TypeEnum": 1, "Type": b"pay", "Amount": 5}])]),
    ("itxn_begin; itxn_begin", {}, "FAIL", None),
    ("int 5; itxn_field Amount", {}, "FAIL", None),
    ("itxn_begin; byte 0x61; itxn_field Amount", {}, "FAIL", None),
    ("itxn_begin; byte 0x61; itxn_field Receiver", {}, "FAIL", None),
    ("itxn_begin; int appl; itxn_field TypeEnum; itxn_next; int pay; itxn_field TypeEnum; itxn_submit", {}, [],
     [("itxn", [{"TypeEnum": 6, "Type": b"appl"}, {"TypeEnum": 1, "Type": b"pay"}])]),
    ("itxn_submit", {}, "FAIL", None),
    ("arg 0", {}, "FAIL", None),
]

PROGRAMS = [
    # (teal, args, expected return value / 'FAIL')
    # n! with a recursive subroutine (scratch convention)
    ("""#pragma version 6
txna ApplicationArgs 0
btoi
callsub fac
return
fac:
store 0
load 0
int 2
<
bnz fac_base
load 0
load 0
int 1
-
load 0
swap
callsub fac
swap
store 0
*
retsub
fac_base:
int 1
retsub
""", [(b"\x00", 1), (b"\x01", 1), (b"\x05", 120), (b"\x0a", 3628800)]),
    # slow fibonacci with frame pointers
    ("""#pragma version 8
txna ApplicationArgs 0
btoi
callsub fib
return
fib:
proto 1 1
frame_dig -1
int 1
<=
bz fib_rec
frame_dig -1
retsub
fib_rec:
frame_dig -1
int 1
-
callsub fib
frame_dig -1
int 2
-
callsub fib
+
retsub
""", [(b"\x00", 0), (b"\x01", 1), (b"\x02", 1), (b"\x07", 13), (b"\x0a", 55)]),
    # euclid gcd loop
    ("""#pragma version 5
txna ApplicationArgs 0
btoi
store 0
txna ApplicationArgs 1
btoi
store 1
loop:
load 1
bz done
load 0
load 1
%
load 1
store 0
store 1
b loop
done:
load 0
return
""", [((b"\x0c", b"\x12"), 6), ((b"\x11", b"\x05"), 1), ((b"\x00", b"\x05"), 5)]),
]


def _run_vec(body, mode="A", **ctxkw):
    text = "#pragma version 10\n" + body.replace("; ", "\n") + "\nint 1\nreturn\n"
    p = asm.assemble(text)
    args = ctxkw.pop("args", None)
    if mode == "A":
        txn = interp.default_txn(ApplicationArgs=list(args or []))
        ctx = interp.Ctx(mode="A", group=[txn], **ctxkw)
    else:
        ctx = interp.Ctx(mode="S", args=list(args or []), **ctxkw)
    r = interp.run(p, ctx, fuel=10000)
    return p, r


def main(quiet=False):
    bad = []
    n = 0
    for body, exp in V:
        n += 1
        p, r = _run_vec(body)
        if p.issues:
            bad.append((body, "asm issues", p.issues))
            continue
        if exp == "FAIL":
            if r.verdict != "FAIL":
                bad.append((body, "expected FAIL", r))
        else:
            if r.verdict != "APPROVE" or r.stack != exp:
                bad.append((body, "expected %r" % (exp,), (r.verdict, r.stack, r.why)))
    for body, kw, exp, eff in VA:
        n += 1
        p, r = _run_vec(body, **dict(kw))
        if exp == "FAIL":
            if r.verdict != "FAIL":
                bad.append((body, "expected FAIL", r))
        else:
            got_eff = [interp._fz(e) for e in r.effects]
            if r.verdict != "APPROVE" or r.stack != exp or got_eff != [interp._fz(e) for e in eff]:
                bad.append((body, "expected %r %r" % (exp, eff), (r.verdict, r.stack, r.effects, r.why)))
    for text, cases in PROGRAMS:
        p = asm.assemble(text, "A")
        if p.issues:
            bad.append((text[:40], "asm issues", p.issues))
        for a, exp in cases:
            n += 1
            args = list(a) if isinstance(a, tuple) else [a]
            r = interp.run(p, interp.Ctx(mode="A", group=[interp.default_txn(ApplicationArgs=args)]), fuel=100000)
            if r.ret != exp:
                bad.append((text[:40], "args %r expected %r" % (a, exp), r))
    # (iii) golden corpus
    ng, gbad = golden()
    bad.extend(gbad)
    if bad:
        for b in bad[:40]:
            print("SELFTEST FAIL:", b, file=sys.stderr)
        print("AVM self-test: %d failures of %d vectors + %d golden files" % (len(bad), n, ng), file=sys.stderr)
        return 1
    if not quiet:
        print("AVM self-test ok: %d vectors, %d golden TEAL files" % (n, ng))
    return 0


def golden_files():
    repo = os.environ.get("VERIF_REPO", "/repo")
    files = sorted(glob.glob(os.path.join(repo, "tests", "**", "*.teal"), recursive=True))
    files += sorted(glob.glob(os.path.join(repo, "examples", "**", "*.teal"), recursive=True))
    return files


def golden():
    from . import absint
    bad = []
    files = golden_files()
    for f in files:
        try:
            text = open(f).read()
        except Exception:
            continue
        p = asm.assemble(text)
        for ln, msg in p.issues:
            bad.append((os.path.relpath(f, "/repo"), "asm", ln, msg))
        if not p.issues:
            for iss in absint.analyse(p).issues:
                bad.append((os.path.relpath(f, "/repo"), "absint", iss))
    return len(files), bad


if __name__ == "__main__":
    sys.exit(main())
