"""AVM self-test (placeholder filled below)."""


def main(quiet=False):
    return 0
