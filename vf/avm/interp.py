"""Reference AVM interpreter (small-step) for assembled programs.

Values: Python int (uint64) and bytes.  Failures of the program are modelled
as exceptions caught at the top and reported as verdict FAIL with a category:
  type / underflow / range / arith / assert / err / other
Resource horizons (fuel, stack 1000, call depth) are reported as RESOURCE.
"""
import hashlib
import math

from .asm import assemble, Program

M64 = (1 << 64) - 1
MAXB = 4096


class Fail(Exception):
    def __init__(self, cat, msg=""):
        self.cat, self.msg = cat, msg


class Resource(Exception):
    pass


ZERO32 = bytes(32)


def default_txn(**kw):
    t = {
        "Sender": b"\x01" * 32,
        "TypeEnum": 6,
        "Type": b"appl",
        "ApplicationID": 7,
        "OnCompletion": 0,
        "ApplicationArgs": [],
        "Accounts": [],
        "Assets": [],
        "Applications": [],
        "Fee": 1000,
        "FirstValid": 100,
        "LastValid": 1100,
        "Logs": [],
    }
    t.update(kw)
    return t


TYPE_BYTES = {0: b"", 1: b"pay", 2: b"keyreg", 3: b"acfg", 4: b"axfer", 5: b"afrz", 6: b"appl"}
TYPE_ENUM = {v: k for k, v in TYPE_BYTES.items()}


class Ctx:
    """Transaction context. Every field has a deterministic default."""

    def __init__(self, mode="A", group=None, group_index=0, args=(), globals_=None, locals_=None,
                 boxes=None, current_app_id=None, opted_in=None, glob=None):
        self.mode = mode
        self.group = group if group is not None else [default_txn()]
        self.group_index = group_index
        self.args = list(args)
        self.globals = dict(globals_ or {})
        self.locals = dict(locals_ or {})  # (addr, key) -> value
        self.opted_in = set(opted_in or ())  # addrs
        self.boxes = dict(boxes or {})
        txn = self.group[self.group_index]
        self.current_app_id = current_app_id if current_app_id is not None else (txn.get("ApplicationID", 0) or 1001)
        self.glob = {
            "MinTxnFee": 1000, "MinBalance": 100000, "MaxTxnLife": 1000, "ZeroAddress": ZERO32,
            "LogicSigVersion": 10, "Round": 4242, "LatestTimestamp": 1700000000,
            "CreatorAddress": b"\x0c" * 32, "CurrentApplicationAddress": b"\x0a" * 32, "GroupID": b"\x0b" * 32,
            "OpcodeBudget": 700, "CallerApplicationID": 0, "CallerApplicationAddress": ZERO32,
            "AssetCreateMinBalance": 100000, "AssetOptInMinBalance": 100000, "GenesisHash": b"\x0d" * 32,
        }
        if glob:
            self.glob.update(glob)

    def clone_state(self):
        return dict(self.globals), dict(self.locals), dict(self.boxes)


class Result:
    __slots__ = ("verdict", "ret", "effects", "logs", "scratch", "stack", "why", "cat", "line", "steps",
                 "max_stack", "boundaries", "pc", "call_depth")

    def __init__(self):
        self.verdict = None
        self.ret = None
        self.effects = []
        self.logs = []
        self.scratch = None
        self.stack = None
        self.why = None
        self.cat = None
        self.line = None
        self.steps = 0
        self.max_stack = 0
        self.boundaries = None
        self.pc = None
        self.call_depth = 0

    def key(self):
        """comparison key per DESIGN 1.4"""
        if self.verdict in ("APPROVE", "REJECT"):
            return (self.verdict, self.ret, tuple(_fz(e) for e in self.effects))
        return (self.verdict,)

    def __repr__(self):
        return "Result(%s ret=%r eff=%r why=%r line=%r)" % (self.verdict, self.ret, self.effects, self.why, self.line)


def _fz(e):
    if isinstance(e, (list, tuple)):
        return tuple(_fz(x) for x in e)
    if isinstance(e, dict):
        return tuple(sorted((k, _fz(v)) for k, v in e.items()))
    return e


def b2i(b):
    return int.from_bytes(b, "big")


def i2b_min(i):
    return i.to_bytes((i.bit_length() + 7) // 8, "big")


def run(prog, ctx, fuel=100000, record_boundaries=False, max_depth=64):
    """Execute an assembled Program (or TEAL text) on ctx."""
    if not isinstance(prog, Program):
        prog = assemble(prog)
    m = Machine(prog, ctx, fuel, record_boundaries, max_depth)
    return m.execute()


class Frame:
    __slots__ = ("ret", "proto", "base", "nargs", "nrets", "entry_height")

    def __init__(self, ret, h):
        self.ret, self.proto, self.base, self.nargs, self.nrets, self.entry_height = ret, False, h, 0, 0, h


class Machine:
    def __init__(self, prog, ctx, fuel, record_boundaries, max_depth):
        self.p = prog
        self.ctx = ctx
        self.fuel = fuel
        self.st = []
        self.scratch = [0] * 256
        self.calls = []
        self.res = Result()
        self.intc = []
        self.bytec = []
        self.itxn = None
        self.itxn_group = []
        self.last_inner = []
        self.max_depth = max_depth
        self.rec = [] if record_boundaries else None
        self.res.boundaries = self.rec
        self.globals = dict(ctx.globals)
        self.locals = dict(ctx.locals)
        self.boxes = dict(ctx.boxes)
        self.after_callsub = -1
        self.txn = ctx.group[ctx.group_index]

    # --- stack helpers
    def pop(self):
        if not self.st:
            raise Fail("underflow", "stack underflow")
        return self.st.pop()

    def popi(self):
        if not self.st:
            raise Fail("underflow", "stack underflow")
        v = self.st.pop()
        if v.__class__ is not int:
            raise Fail("type", "want uint64 got bytes")
        return v

    def popb(self):
        if not self.st:
            raise Fail("underflow", "stack underflow")
        v = self.st.pop()
        if v.__class__ is not bytes:
            raise Fail("type", "want bytes got uint64")
        return v

    def push(self, v):
        if v.__class__ is bytes:
            if len(v) > MAXB:
                raise Fail("range", "byte string longer than 4096")
        self.st.append(v)
        if len(self.st) > 1000:
            raise Resource("stack overflow")

    # --- txn fields
    def txn_field(self, t, f, idx=None, inner=False):
        if f == "GroupIndex" and not inner:
            return self.ctx.group.index(t) if t in self.ctx.group else 0
        from .spec import TXN_FIELDS
        typ, _v, arr = TXN_FIELDS[f]
        if f == "Accounts":
            # index 0 is the sender
            lst = t.get("Accounts", [])
            if idx == 0:
                return t.get("Sender", ZERO32)
            if idx - 1 >= len(lst):
                raise Fail("range", "Accounts index")
            return lst[idx - 1]
        if f == "Applications":
            lst = t.get("Applications", [])
            if idx == 0:
                return t.get("ApplicationID", 0)
            if idx - 1 >= len(lst):
                raise Fail("range", "Applications index")
            return lst[idx - 1]
        if arr:
            lst = t.get(f, [])
            if idx >= len(lst):
                raise Fail("range", "%s index %d out of range" % (f, idx))
            return lst[idx]
        if f == "NumAppArgs":
            return len(t.get("ApplicationArgs", []))
        if f == "NumAccounts":
            return len(t.get("Accounts", []))
        if f == "NumAssets":
            return len(t.get("Assets", []))
        if f == "NumApplications":
            return len(t.get("Applications", []))
        if f == "NumLogs":
            return len(t.get("Logs", []))
        if f == "LastLog":
            l = t.get("Logs", [])
            return l[-1] if l else b""
        if f == "Type":
            if "Type" in t:
                return t["Type"]
            return TYPE_BYTES.get(t.get("TypeEnum", 0), b"")
        if f == "TypeEnum":
            if "TypeEnum" in t:
                return t["TypeEnum"]
            return TYPE_ENUM.get(t.get("Type", b""), 0)
        if f == "TxID":
            return t.get("TxID", hashlib.sha256(repr(sorted((k, repr(v)) for k, v in t.items())).encode()).digest())
        if f in t:
            return t[f]
        if typ == "i":
            return 0
        if f in ("Sender", "Receiver", "CloseRemainderTo", "AssetSender", "AssetReceiver", "AssetCloseTo", "RekeyTo",
                 "ConfigAssetManager", "ConfigAssetReserve", "ConfigAssetFreeze", "ConfigAssetClawback",
                 "FreezeAssetAccount", "VotePK", "SelectionPK", "Lease", "ConfigAssetMetadataHash"):
            return ZERO32
        return b""

    def group_txn(self, i):
        g = self.ctx.group
        if i >= len(g):
            raise Fail("range", "gtxn index %d beyond group" % i)
        return g[i]

    def inner_txn(self, i=None):
        if not self.last_inner:
            raise Fail("other", "no inner transaction available")
        if i is None:
            return self.last_inner[-1]
        if i >= len(self.last_inner):
            raise Fail("range", "gitxn index")
        return self.last_inner[i]

    def account(self, v):
        """resolve an account reference (index or address)"""
        if v.__class__ is int:
            if v == 0:
                return self.txn.get("Sender", ZERO32)
            lst = self.txn.get("Accounts", [])
            if v - 1 >= len(lst):
                raise Fail("range", "account index")
            return lst[v - 1]
        if len(v) != 32:
            raise Fail("range", "account address length")
        return v

    def appref(self, v):
        if v == 0:
            return self.ctx.current_app_id
        lst = self.txn.get("Applications", [])
        if v <= len(lst):
            return lst[v - 1]
        return v

    # --- main loop
    def execute(self):
        res = self.res
        p = self.p
        instrs = p.instrs
        n = len(instrs)
        pc = 0
        st = self.st
        steps = 0
        fuel = self.fuel
        D = DISPATCH
        mx = 0
        try:
            while True:
                if pc >= n:
                    if pc == n and not self.calls:
                        if len(st) == 1 and st[0].__class__ is int:
                            res.verdict = "APPROVE" if st[0] else "REJECT"
                            res.ret = st[0]
                            break
                        raise Fail("other", "program ended with stack of %d" % len(st))
                    raise Fail("other", "pc out of range")
                steps += 1
                if steps > fuel:
                    raise Resource("fuel")
                ins = instrs[pc]
                h = D.get(ins.op)
                if h is None:
                    raise NotImplementedError("opcode %s" % ins.op)
                self.pc = pc
                r = h(self, ins.args)
                if len(st) > mx:
                    mx = len(st)
                if r is None:
                    pc += 1
                elif r == -1:
                    break
                else:
                    pc = r
        except Fail as e:
            res.verdict = "FAIL"
            res.why = e.msg
            res.cat = e.cat
            res.line = instrs[pc].line if pc < n else -1
            res.pc = pc
        except Resource as e:
            res.verdict = "RESOURCE"
            res.why = str(e)
            res.line = instrs[pc].line if pc < n else -1
        except (IndexError, KeyError, TypeError, ValueError, AttributeError) as e:
            # an instruction the assembler front-end could not parse completely (missing / malformed
            # immediates): the real AVM would never have accepted the program
            res.verdict = "FAIL"
            res.why = "malformed instruction: %r" % (e,)
            res.cat = "malformed"
            res.line = instrs[pc].line if pc < n else -1
            res.pc = pc
        res.steps = steps
        res.max_stack = mx
        res.scratch = self.scratch
        res.stack = list(st)
        res.call_depth = len(self.calls)
        if res.verdict in ("FAIL", "RESOURCE"):
            pass
        return res

    def label(self, name):
        try:
            return self.p.labels[name]
        except KeyError:
            raise Fail("other", "undefined label %s" % name)


DISPATCH = {}


def op(*names):
    def deco(fn):
        for nm in names:
            DISPATCH[nm] = fn
        return fn
    return deco


def _const(v):
    if v.__class__ is tuple:
        raise Fail("other", "template placeholder %s has no value" % (v[1],))
    return v


@op("int", "pushint")
def _(m, a):
    m.push(_const(a[0]))


@op("byte", "pushbytes", "addr", "method")
def _(m, a):
    m.push(_const(a[0]))


@op("pushints")
def _(m, a):
    for v in a[0]:
        m.push(_const(v))


@op("pushbytess")
def _(m, a):
    for v in a[0]:
        m.push(_const(v))


@op("intcblock")
def _(m, a):
    m.intc = list(a[0])


@op("bytecblock")
def _(m, a):
    m.bytec = list(a[0])


def _intc(m, i):
    if i >= len(m.intc):
        raise Fail("range", "intc %d beyond block" % i)
    m.push(_const(m.intc[i]))


def _bytec(m, i):
    if i >= len(m.bytec):
        raise Fail("range", "bytec %d beyond block" % i)
    m.push(_const(m.bytec[i]))


DISPATCH["intc"] = lambda m, a: _intc(m, a[0])
DISPATCH["bytec"] = lambda m, a: _bytec(m, a[0])
for _k in range(4):
    DISPATCH["intc_%d" % _k] = (lambda k: lambda m, a: _intc(m, k))(_k)
    DISPATCH["bytec_%d" % _k] = (lambda k: lambda m, a: _bytec(m, k))(_k)


@op("+")
def _(m, a):
    b = m.popi(); x = m.popi()
    if x + b > M64:
        raise Fail("arith", "+ overflow")
    m.st.append(x + b)


@op("-")
def _(m, a):
    b = m.popi(); x = m.popi()
    if b > x:
        raise Fail("arith", "- underflow")
    m.st.append(x - b)


@op("*")
def _(m, a):
    b = m.popi(); x = m.popi()
    if x * b > M64:
        raise Fail("arith", "* overflow")
    m.st.append(x * b)


@op("/")
def _(m, a):
    b = m.popi(); x = m.popi()
    if b == 0:
        raise Fail("arith", "/ by zero")
    m.st.append(x // b)


@op("%")
def _(m, a):
    b = m.popi(); x = m.popi()
    if b == 0:
        raise Fail("arith", "% by zero")
    m.st.append(x % b)


def _cmp(fn):
    def h(m, a):
        b = m.popi(); x = m.popi()
        m.st.append(1 if fn(x, b) else 0)
    return h


DISPATCH["<"] = _cmp(lambda x, b: x < b)
DISPATCH[">"] = _cmp(lambda x, b: x > b)
DISPATCH["<="] = _cmp(lambda x, b: x <= b)
DISPATCH[">="] = _cmp(lambda x, b: x >= b)
DISPATCH["&&"] = _cmp(lambda x, b: x != 0 and b != 0)
DISPATCH["||"] = _cmp(lambda x, b: x != 0 or b != 0)


def _bin(fn):
    def h(m, a):
        b = m.popi(); x = m.popi()
        m.st.append(fn(x, b))
    return h


DISPATCH["&"] = _bin(lambda x, b: x & b)
DISPATCH["|"] = _bin(lambda x, b: x | b)
DISPATCH["^"] = _bin(lambda x, b: x ^ b)


@op("==", "!=")
def _(m, a):
    b = m.pop(); x = m.pop()
    if b.__class__ is not x.__class__:
        raise Fail("type", "cannot compare uint64 with bytes")
    eq = x == b
    m.st.append(int(eq if m.p.instrs[m.pc].op == "==" else not eq))


@op("!")
def _(m, a):
    m.st.append(1 if m.popi() == 0 else 0)


@op("~")
def _(m, a):
    m.st.append(m.popi() ^ M64)


@op("len")
def _(m, a):
    m.st.append(len(m.popb()))


@op("itob")
def _(m, a):
    m.st.append(m.popi().to_bytes(8, "big"))


@op("btoi")
def _(m, a):
    b = m.popb()
    if len(b) > 8:
        raise Fail("range", "btoi of more than 8 bytes")
    m.st.append(b2i(b))


@op("mulw")
def _(m, a):
    b = m.popi(); x = m.popi()
    p = x * b
    m.st.append(p >> 64); m.st.append(p & M64)


@op("addw")
def _(m, a):
    b = m.popi(); x = m.popi()
    s = x + b
    m.st.append(s >> 64); m.st.append(s & M64)


@op("divmodw")
def _(m, a):
    d = m.popi(); c = m.popi(); b = m.popi(); x = m.popi()
    num = (x << 64) | b
    den = (c << 64) | d
    if den == 0:
        raise Fail("arith", "divmodw by zero")
    q, r = divmod(num, den)
    m.st.extend((q >> 64, q & M64, r >> 64, r & M64))


@op("divw")
def _(m, a):
    d = m.popi(); lo = m.popi(); hi = m.popi()
    if d == 0:
        raise Fail("arith", "divw by zero")
    q = ((hi << 64) | lo) // d
    if q > M64:
        raise Fail("arith", "divw overflow")
    m.st.append(q)


@op("exp")
def _(m, a):
    b = m.popi(); x = m.popi()
    if x == 0 and b == 0:
        raise Fail("arith", "0 exp 0")
    if x > 1 and b > 64:
        raise Fail("arith", "exp overflow")
    r = x ** b if x > 1 else x
    if r > M64:
        raise Fail("arith", "exp overflow")
    m.st.append(r)


@op("expw")
def _(m, a):
    b = m.popi(); x = m.popi()
    if x == 0 and b == 0:
        raise Fail("arith", "0 expw 0")
    if x > 1 and b > 128:
        raise Fail("arith", "expw overflow")
    r = x ** b if x > 1 else x
    if r >> 128:
        raise Fail("arith", "expw overflow")
    m.st.append(r >> 64); m.st.append(r & M64)


@op("shl")
def _(m, a):
    b = m.popi(); x = m.popi()
    if b > 63:
        raise Fail("arith", "shl by more than 63")
    m.st.append((x << b) & M64)


@op("shr")
def _(m, a):
    b = m.popi(); x = m.popi()
    if b > 63:
        raise Fail("arith", "shr by more than 63")
    m.st.append(x >> b)


@op("sqrt")
def _(m, a):
    m.st.append(math.isqrt(m.popi()))


@op("bitlen")
def _(m, a):
    v = m.pop()
    m.st.append(v.bit_length() if v.__class__ is int else b2i(v).bit_length())


@op("bsqrt")
def _(m, a):
    b = m.popb()
    if len(b) > 64:
        raise Fail("range", "bsqrt operand too long")
    m.st.append(i2b_min(math.isqrt(b2i(b))))


def _bmath(fn, name):
    def h(m, a):
        b = m.popb(); x = m.popb()
        if len(b) > 64 or len(x) > 64:
            raise Fail("range", "%s operand longer than 64 bytes" % name)
        r = fn(b2i(x), b2i(b))
        m.push(i2b_min(r))
    return h


def _bsub(x, b):
    if b > x:
        raise Fail("arith", "b- underflow")
    return x - b


def _bdiv(x, b):
    if b == 0:
        raise Fail("arith", "b/ by zero")
    return x // b


def _bmod(x, b):
    if b == 0:
        raise Fail("arith", "b% by zero")
    return x % b


DISPATCH["b+"] = _bmath(lambda x, b: x + b, "b+")
DISPATCH["b-"] = _bmath(_bsub, "b-")
DISPATCH["b*"] = _bmath(lambda x, b: x * b, "b*")
DISPATCH["b/"] = _bmath(_bdiv, "b/")
DISPATCH["b%"] = _bmath(_bmod, "b%")


def _bcmp(fn, name):
    def h(m, a):
        b = m.popb(); x = m.popb()
        if len(b) > 64 or len(x) > 64:
            raise Fail("range", "%s operand longer than 64 bytes" % name)
        m.st.append(1 if fn(b2i(x), b2i(b)) else 0)
    return h


DISPATCH["b<"] = _bcmp(lambda x, b: x < b, "b<")
DISPATCH["b>"] = _bcmp(lambda x, b: x > b, "b>")
DISPATCH["b<="] = _bcmp(lambda x, b: x <= b, "b<=")
DISPATCH["b>="] = _bcmp(lambda x, b: x >= b, "b>=")
DISPATCH["b=="] = _bcmp(lambda x, b: x == b, "b==")
DISPATCH["b!="] = _bcmp(lambda x, b: x != b, "b!=")


def _bbit(fn):
    def h(m, a):
        b = m.popb(); x = m.popb()
        if len(b) > 64 or len(x) > 64:
            raise Fail("range", "bitwise byte operand longer than 64 bytes")
        n = max(len(b), len(x))
        r = fn(b2i(x), b2i(b))
        m.st.append(r.to_bytes(n, "big"))
    return h


DISPATCH["b|"] = _bbit(lambda x, b: x | b)
DISPATCH["b&"] = _bbit(lambda x, b: x & b)
DISPATCH["b^"] = _bbit(lambda x, b: x ^ b)


@op("b~")
def _(m, a):
    x = m.popb()
    if len(x) > 64:
        raise Fail("range", "b~ operand longer than 64 bytes")
    m.st.append(bytes(c ^ 0xFF for c in x))


@op("bzero")
def _(m, a):
    n = m.popi()
    if n > MAXB:
        raise Fail("range", "bzero longer than 4096")
    m.st.append(bytes(n))


@op("concat")
def _(m, a):
    b = m.popb(); x = m.popb()
    if len(x) + len(b) > MAXB:
        raise Fail("range", "concat longer than 4096")
    m.st.append(x + b)


@op("substring")
def _(m, a):
    x = m.popb()
    s, e = a[0], a[1]
    if e < s or e > len(x):
        raise Fail("range", "substring range")
    m.st.append(x[s:e])


@op("substring3")
def _(m, a):
    e = m.popi(); s = m.popi(); x = m.popb()
    if e < s or e > len(x):
        raise Fail("range", "substring3 range")
    m.st.append(x[s:e])


@op("extract")
def _(m, a):
    x = m.popb()
    s, l = a[0], a[1]
    if l == 0:
        if s > len(x):
            raise Fail("range", "extract start beyond length")
        m.st.append(x[s:])
    else:
        if s + l > len(x):
            raise Fail("range", "extract range")
        m.st.append(x[s:s + l])


@op("extract3")
def _(m, a):
    l = m.popi(); s = m.popi(); x = m.popb()
    if s + l > len(x):
        raise Fail("range", "extract3 range")
    m.st.append(x[s:s + l])


def _extract_uint(nb):
    def h(m, a):
        s = m.popi(); x = m.popb()
        if s + nb > len(x):
            raise Fail("range", "extract_uint range")
        m.st.append(b2i(x[s:s + nb]))
    return h


DISPATCH["extract_uint16"] = _extract_uint(2)
DISPATCH["extract_uint32"] = _extract_uint(4)
DISPATCH["extract_uint64"] = _extract_uint(8)


@op("replace2")
def _(m, a):
    b = m.popb(); x = m.popb()
    s = a[0]
    if s + len(b) > len(x):
        raise Fail("range", "replace2 range")
    m.st.append(x[:s] + b + x[s + len(b):])


@op("replace3")
def _(m, a):
    b = m.popb(); s = m.popi(); x = m.popb()
    if s + len(b) > len(x):
        raise Fail("range", "replace3 range")
    m.st.append(x[:s] + b + x[s + len(b):])


@op("getbyte")
def _(m, a):
    i = m.popi(); x = m.popb()
    if i >= len(x):
        raise Fail("range", "getbyte index")
    m.st.append(x[i])


@op("setbyte")
def _(m, a):
    v = m.popi(); i = m.popi(); x = m.popb()
    if i >= len(x):
        raise Fail("range", "setbyte index")
    if v > 255:
        raise Fail("range", "setbyte value")
    m.st.append(x[:i] + bytes([v]) + x[i + 1:])


@op("getbit")
def _(m, a):
    i = m.popi(); x = m.pop()
    if x.__class__ is int:
        if i >= 64:
            raise Fail("range", "getbit index")
        m.st.append((x >> i) & 1)
    else:
        if i >= 8 * len(x):
            raise Fail("range", "getbit index")
        m.st.append((x[i // 8] >> (7 - i % 8)) & 1)


@op("setbit")
def _(m, a):
    v = m.popi(); i = m.popi(); x = m.pop()
    if v > 1:
        raise Fail("range", "setbit value")
    if x.__class__ is int:
        if i >= 64:
            raise Fail("range", "setbit index")
        m.st.append((x & ~(1 << i) & M64) | (v << i))
    else:
        if i >= 8 * len(x):
            raise Fail("range", "setbit index")
        bb = bytearray(x)
        mask = 1 << (7 - i % 8)
        bb[i // 8] = (bb[i // 8] & ~mask & 0xFF) | (mask if v else 0)
        m.st.append(bytes(bb))


@op("sha256")
def _(m, a):
    m.st.append(hashlib.sha256(m.popb()).digest())


@op("sha512_256")
def _(m, a):
    h = hashlib.new("sha512_256"); h.update(m.popb()); m.st.append(h.digest())


@op("sha3_256")
def _(m, a):
    m.st.append(hashlib.sha3_256(m.popb()).digest())


@op("keccak256")
def _(m, a):
    from Cryptodome.Hash import keccak
    k = keccak.new(digest_bits=256); k.update(m.popb()); m.st.append(k.digest())


@op("pop")
def _(m, a):
    m.pop()


@op("popn")
def _(m, a):
    n = a[0]
    if n > len(m.st):
        raise Fail("underflow", "popn")
    if n:
        del m.st[-n:]


@op("dup")
def _(m, a):
    if not m.st:
        raise Fail("underflow", "dup")
    m.push(m.st[-1])


@op("dup2")
def _(m, a):
    if len(m.st) < 2:
        raise Fail("underflow", "dup2")
    m.push(m.st[-2]); m.push(m.st[-2])


@op("dupn")
def _(m, a):
    if not m.st:
        raise Fail("underflow", "dupn")
    v = m.st[-1]
    for _ in range(a[0]):
        m.push(v)


@op("swap")
def _(m, a):
    if len(m.st) < 2:
        raise Fail("underflow", "swap")
    m.st[-1], m.st[-2] = m.st[-2], m.st[-1]


@op("dig")
def _(m, a):
    n = a[0]
    if n >= len(m.st):
        raise Fail("underflow", "dig %d" % n)
    m.push(m.st[-1 - n])


@op("cover")
def _(m, a):
    n = a[0]
    if n >= len(m.st):
        raise Fail("underflow", "cover %d" % n)
    v = m.st.pop()
    m.st.insert(len(m.st) - n, v)


@op("uncover")
def _(m, a):
    n = a[0]
    if n >= len(m.st):
        raise Fail("underflow", "uncover %d" % n)
    v = m.st.pop(len(m.st) - 1 - n)
    m.st.append(v)


@op("bury")
def _(m, a):
    n = a[0]
    if n == 0 or n >= len(m.st):
        raise Fail("underflow", "bury %d" % n)
    v = m.st.pop()
    m.st[len(m.st) - n] = v


@op("select")
def _(m, a):
    c = m.popi(); b = m.pop(); x = m.pop()
    m.st.append(b if c else x)


@op("load")
def _(m, a):
    m.push(m.scratch[a[0]])


@op("store")
def _(m, a):
    m.scratch[a[0]] = m.pop()


@op("loads")
def _(m, a):
    i = m.popi()
    if i >= 256:
        raise Fail("range", "loads index")
    m.push(m.scratch[i])


@op("stores")
def _(m, a):
    v = m.pop(); i = m.popi()
    if i >= 256:
        raise Fail("range", "stores index")
    m.scratch[i] = v


@op("b")
def _(m, a):
    return m.label(a[0])


@op("bz")
def _(m, a):
    if m.popi() == 0:
        return m.label(a[0])


@op("bnz")
def _(m, a):
    if m.popi() != 0:
        return m.label(a[0])


@op("switch")
def _(m, a):
    i = m.popi()
    if i < len(a[0]):
        return m.label(a[0][i])


@op("match")
def _(m, a):
    n = len(a[0])
    if len(m.st) < n + 1:
        raise Fail("underflow", "match")
    v = m.st.pop()
    cands = m.st[len(m.st) - n:]
    del m.st[len(m.st) - n:]
    for i, c in enumerate(cands):
        if c.__class__ is v.__class__ and c == v:
            return m.label(a[0][i])


@op("callsub")
def _(m, a):
    if len(m.calls) >= m.max_depth:
        raise Resource("call depth")
    if m.rec is not None:
        m.rec.append(("call", a[0], len(m.calls), tuple(m.st)))
    m.calls.append(Frame(m.pc + 1, len(m.st)))
    t = m.label(a[0])
    m.after_callsub = t
    return t


@op("proto")
def _(m, a):
    if m.after_callsub != m.pc or not m.calls:
        raise Fail("other", "proto not first instruction of a subroutine")
    m.after_callsub = -1
    f = m.calls[-1]
    if f.proto:
        raise Fail("other", "proto twice")
    if len(m.st) < a[0]:
        raise Fail("underflow", "proto needs %d args" % a[0])
    f.proto = True
    f.nargs, f.nrets = a[0], a[1]
    f.base = len(m.st)


@op("retsub")
def _(m, a):
    if not m.calls:
        raise Fail("other", "retsub with empty call stack")
    f = m.calls.pop()
    st = m.st
    if f.proto:
        want = f.base + f.nrets
        if len(st) < want:
            raise Fail("underflow", "retsub: stack height %d below frame+results %d" % (len(st), want))
        vals = st[f.base:want]
        del st[f.base - f.nargs:]
        st.extend(vals)
    if m.rec is not None:
        m.rec.append(("ret", None, len(m.calls), tuple(st)))
    return f.ret


@op("frame_dig")
def _(m, a):
    if not m.calls or not m.calls[-1].proto:
        raise Fail("other", "frame_dig without proto")
    f = m.calls[-1]
    idx = f.base + a[0]
    if idx >= len(m.st) or idx < f.base - f.nargs:
        raise Fail("range", "frame_dig %d outside frame" % a[0])
    m.push(m.st[idx])


@op("frame_bury")
def _(m, a):
    if not m.calls or not m.calls[-1].proto:
        raise Fail("other", "frame_bury without proto")
    f = m.calls[-1]
    v = m.pop()
    idx = f.base + a[0]
    if idx >= len(m.st) or idx < f.base - f.nargs:
        raise Fail("range", "frame_bury %d outside frame" % a[0])
    m.st[idx] = v


@op("assert")
def _(m, a):
    if m.popi() == 0:
        raise Fail("assert", "assert failed")


@op("err")
def _(m, a):
    raise Fail("err", "err opcode")


@op("return")
def _(m, a):
    v = m.popi()
    m.res.verdict = "APPROVE" if v else "REJECT"
    m.res.ret = v
    return -1


def _need_app(m):
    if m.ctx.mode != "A":
        raise Fail("other", "application-mode opcode in signature mode")


@op("log")
def _(m, a):
    _need_app(m)
    b = m.popb()
    m.res.logs.append(b)
    if len(m.res.logs) > 32 or sum(map(len, m.res.logs)) > 1024:
        raise Resource("log limits")
    m.res.effects.append(("log", b))


@op("txn")
def _(m, a):
    m.push(m.txn_field(m.txn, a[0]))


@op("txna")
def _(m, a):
    m.push(m.txn_field(m.txn, a[0], a[1]))


@op("txnas")
def _(m, a):
    m.push(m.txn_field(m.txn, a[0], m.popi()))


@op("gtxn")
def _(m, a):
    m.push(m.txn_field(m.group_txn(a[0]), a[1]))


@op("gtxna")
def _(m, a):
    m.push(m.txn_field(m.group_txn(a[0]), a[1], a[2]))


@op("gtxnas")
def _(m, a):
    i = m.popi()
    m.push(m.txn_field(m.group_txn(a[0]), a[1], i))


@op("gtxns")
def _(m, a):
    m.push(m.txn_field(m.group_txn(m.popi()), a[0]))


@op("gtxnsa")
def _(m, a):
    m.push(m.txn_field(m.group_txn(m.popi()), a[0], a[1]))


@op("gtxnsas")
def _(m, a):
    i = m.popi(); t = m.popi()
    m.push(m.txn_field(m.group_txn(t), a[0], i))


@op("itxn")
def _(m, a):
    m.push(m.txn_field(m.inner_txn(), a[0], inner=True))


@op("itxna")
def _(m, a):
    m.push(m.txn_field(m.inner_txn(), a[0], a[1], inner=True))


@op("itxnas")
def _(m, a):
    m.push(m.txn_field(m.inner_txn(), a[0], m.popi(), inner=True))


@op("gitxn")
def _(m, a):
    m.push(m.txn_field(m.inner_txn(a[0]), a[1], inner=True))


@op("gitxna")
def _(m, a):
    m.push(m.txn_field(m.inner_txn(a[0]), a[1], a[2], inner=True))


@op("gitxnas")
def _(m, a):
    i = m.popi()
    m.push(m.txn_field(m.inner_txn(a[0]), a[1], i, inner=True))


@op("global")
def _(m, a):
    f = a[0]
    if f == "GroupSize":
        m.push(len(m.ctx.group))
    elif f == "CurrentApplicationID":
        _need_app(m)
        m.push(m.ctx.current_app_id)
    else:
        m.push(m.ctx.glob[f])


@op("arg")
def _(m, a):
    if m.ctx.mode != "S":
        raise Fail("other", "arg in application mode")
    if a[0] >= len(m.ctx.args):
        raise Fail("range", "arg index")
    m.push(m.ctx.args[a[0]])


for _k in range(4):
    DISPATCH["arg_%d" % _k] = (lambda k: lambda m, a: DISPATCH["arg"](m, [k]))(_k)


@op("args")
def _(m, a):
    if m.ctx.mode != "S":
        raise Fail("other", "args in application mode")
    i = m.popi()
    if i >= len(m.ctx.args):
        raise Fail("range", "args index")
    m.push(m.ctx.args[i])


@op("gload")
def _(m, a):
    _need_app(m)
    m.push(_gload(m, a[0], a[1]))


@op("gloads")
def _(m, a):
    _need_app(m)
    m.push(_gload(m, m.popi(), a[0]))


@op("gloadss")
def _(m, a):
    _need_app(m)
    s = m.popi(); t = m.popi()
    m.push(_gload(m, t, s))


def _gload(m, t, s):
    if t >= m.ctx.group_index:
        raise Fail("range", "gload of a later or same transaction")
    if s >= 256:
        raise Fail("range", "gload slot")
    tx = m.ctx.group[t]
    if tx.get("TypeEnum", 6) != 6:
        raise Fail("other", "gload of a non-app-call")
    return tx.get("_scratch", {}).get(s, 0)


@op("gaid")
def _(m, a):
    _need_app(m)
    m.push(_gaid(m, a[0]))


@op("gaids")
def _(m, a):
    _need_app(m)
    m.push(_gaid(m, m.popi()))


def _gaid(m, t):
    if t >= m.ctx.group_index:
        raise Fail("range", "gaid of a later or same transaction")
    return m.ctx.group[t].get("_created_id", 0)


# ---- application state
@op("app_global_put")
def _(m, a):
    _need_app(m)
    v = m.pop(); k = m.popb()
    if len(k) > 64:
        raise Fail("range", "key too long")
    m.globals[k] = v
    m.res.effects.append(("gput", k, v))


@op("app_global_get")
def _(m, a):
    _need_app(m)
    k = m.popb()
    m.push(m.globals.get(k, 0))


@op("app_global_get_ex")
def _(m, a):
    _need_app(m)
    k = m.popb(); app = m.popi()
    appid = m.appref(app)
    if appid == m.ctx.current_app_id:
        st = m.globals
    else:
        st = m.ctx.glob.get("_foreign_globals", {}).get(appid, {})
    if k in st:
        m.push(st[k]); m.push(1)
    else:
        m.push(0); m.push(0)


@op("app_global_del")
def _(m, a):
    _need_app(m)
    k = m.popb()
    m.globals.pop(k, None)
    m.res.effects.append(("gdel", k))


@op("app_opted_in")
def _(m, a):
    _need_app(m)
    app = m.popi(); acct = m.account(m.pop())
    m.push(1 if (acct in m.ctx.opted_in) else 0)


@op("app_local_put")
def _(m, a):
    _need_app(m)
    v = m.pop(); k = m.popb(); acct = m.account(m.pop())
    if acct not in m.ctx.opted_in:
        raise Fail("other", "account not opted in")
    m.locals[(acct, k)] = v
    m.res.effects.append(("lput", acct, k, v))


@op("app_local_get")
def _(m, a):
    _need_app(m)
    k = m.popb(); acct = m.account(m.pop())
    if acct not in m.ctx.opted_in:
        raise Fail("other", "account not opted in")
    m.push(m.locals.get((acct, k), 0))


@op("app_local_get_ex")
def _(m, a):
    _need_app(m)
    k = m.popb(); app = m.popi(); acct = m.account(m.pop())
    appid = m.appref(app)
    if appid == m.ctx.current_app_id and (acct, k) in m.locals and acct in m.ctx.opted_in:
        m.push(m.locals[(acct, k)]); m.push(1)
    else:
        m.push(0); m.push(0)


@op("app_local_del")
def _(m, a):
    _need_app(m)
    k = m.popb(); acct = m.account(m.pop())
    if acct not in m.ctx.opted_in:
        raise Fail("other", "account not opted in")
    m.locals.pop((acct, k), None)
    m.res.effects.append(("ldel", acct, k))


@op("balance", "min_balance")
def _(m, a):
    _need_app(m)
    m.account(m.pop())
    m.push(m.ctx.glob.get("_balance", 1000000))


# ---- boxes
@op("box_create")
def _(m, a):
    _need_app(m)
    n = m.popi(); k = m.popb()
    if not k or len(k) > 64:
        raise Fail("range", "box name")
    if k in m.boxes:
        if len(m.boxes[k]) != n:
            raise Fail("other", "box exists with different size")
        m.push(0)
    else:
        if n > 32768:
            raise Fail("range", "box size")
        m.boxes[k] = bytes(n)
        m.res.effects.append(("box", k, m.boxes[k]))
        m.push(1)


@op("box_put")
def _(m, a):
    _need_app(m)
    v = m.popb(); k = m.popb()
    if not k or len(k) > 64:
        raise Fail("range", "box name")
    if k in m.boxes and len(m.boxes[k]) != len(v):
        raise Fail("other", "box_put size mismatch")
    m.boxes[k] = v
    m.res.effects.append(("box", k, v))


@op("box_get")
def _(m, a):
    _need_app(m)
    k = m.popb()
    if k in m.boxes:
        m.push(m.boxes[k]); m.push(1)
    else:
        m.push(b""); m.push(0)


@op("box_len")
def _(m, a):
    _need_app(m)
    k = m.popb()
    if k in m.boxes:
        m.push(len(m.boxes[k])); m.push(1)
    else:
        m.push(0); m.push(0)


@op("box_del")
def _(m, a):
    _need_app(m)
    k = m.popb()
    if k in m.boxes:
        del m.boxes[k]
        m.res.effects.append(("boxdel", k))
        m.push(1)
    else:
        m.push(0)


@op("box_extract")
def _(m, a):
    _need_app(m)
    l = m.popi(); s = m.popi(); k = m.popb()
    if k not in m.boxes:
        raise Fail("other", "no such box")
    b = m.boxes[k]
    if s + l > len(b):
        raise Fail("range", "box_extract range")
    m.push(b[s:s + l])


@op("box_replace")
def _(m, a):
    _need_app(m)
    v = m.popb(); s = m.popi(); k = m.popb()
    if k not in m.boxes:
        raise Fail("other", "no such box")
    b = m.boxes[k]
    if s + len(v) > len(b):
        raise Fail("range", "box_replace range")
    m.boxes[k] = b[:s] + v + b[s + len(v):]
    m.res.effects.append(("box", k, m.boxes[k]))


@op("box_resize")
def _(m, a):
    _need_app(m)
    n = m.popi(); k = m.popb()
    if k not in m.boxes:
        raise Fail("other", "no such box")
    b = m.boxes[k]
    m.boxes[k] = b[:n] + bytes(max(0, n - len(b)))
    m.res.effects.append(("box", k, m.boxes[k]))


@op("box_splice")
def _(m, a):
    _need_app(m)
    v = m.popb(); l = m.popi(); s = m.popi(); k = m.popb()
    if k not in m.boxes:
        raise Fail("other", "no such box")
    b = m.boxes[k]
    if s + l > len(b):
        raise Fail("range", "box_splice range")
    nb = b[:s] + v + b[s + l:]
    nb = (nb + bytes(len(b)))[:len(b)]
    m.boxes[k] = nb
    m.res.effects.append(("box", k, nb))


# ---- inner transactions
ITXN_ARRAY_LIMITS = {"ApplicationArgs": 16, "Accounts": 4, "Assets": 8, "Applications": 8, "ApprovalProgramPages": 4,
                     "ClearStateProgramPages": 4}
ADDR_FIELDS = {"Sender", "Receiver", "CloseRemainderTo", "AssetSender", "AssetReceiver", "AssetCloseTo", "RekeyTo",
               "ConfigAssetManager", "ConfigAssetReserve", "ConfigAssetFreeze", "ConfigAssetClawback",
               "FreezeAssetAccount", "Accounts"}


@op("itxn_begin")
def _(m, a):
    _need_app(m)
    if m.itxn is not None:
        raise Fail("other", "itxn_begin without itxn_submit")
    m.itxn = {}
    m.itxn_group = []


@op("itxn_next")
def _(m, a):
    _need_app(m)
    if m.itxn is None:
        raise Fail("other", "itxn_next without itxn_begin")
    m.itxn_group.append(m.itxn)
    if len(m.itxn_group) >= 16:
        raise Fail("range", "too many inner transactions")
    m.itxn = {}


@op("itxn_field")
def _(m, a):
    _need_app(m)
    if m.itxn is None:
        raise Fail("other", "itxn_field without itxn_begin")
    from .spec import TXN_FIELDS
    f = a[0]
    typ, _v, arr = TXN_FIELDS[f]
    v = m.pop()
    if typ == "i" and v.__class__ is not int:
        raise Fail("type", "itxn_field %s wants uint64" % f)
    if typ == "b" and v.__class__ is not bytes:
        raise Fail("type", "itxn_field %s wants bytes" % f)
    if f in ADDR_FIELDS and len(v) != 32:
        raise Fail("range", "itxn_field %s wants a 32-byte address" % f)
    if f == "OnCompletion" and v > 5:
        raise Fail("range", "OnCompletion value")
    if f == "TypeEnum" and not 1 <= v <= 6:
        raise Fail("range", "TypeEnum value")
    if f == "Type" and v not in TYPE_ENUM:
        raise Fail("range", "Type value")
    if f in ("ConfigAssetDefaultFrozen", "FreezeAssetFrozen", "Nonparticipation") and v > 1:
        raise Fail("range", "%s must be boolean" % f)
    if arr:
        lst = m.itxn.setdefault(f, [])
        lst.append(v)
        if len(lst) > ITXN_ARRAY_LIMITS.get(f, 16):
            raise Fail("range", "too many %s" % f)
        if f == "ApplicationArgs" and sum(map(len, lst)) > 2048:
            raise Fail("range", "ApplicationArgs total length")
        tot = len(m.itxn.get("Accounts", [])) + len(m.itxn.get("Assets", [])) + len(m.itxn.get("Applications", []))
        if tot > 8:
            raise Fail("range", "too many references")
    else:
        if f == "Type":
            m.itxn["TypeEnum"] = TYPE_ENUM[v]
            m.itxn["Type"] = v
        elif f == "TypeEnum":
            m.itxn["TypeEnum"] = v
            m.itxn["Type"] = TYPE_BYTES[v]
        else:
            m.itxn[f] = v


@op("itxn_submit")
def _(m, a):
    _need_app(m)
    if m.itxn is None:
        raise Fail("other", "itxn_submit without itxn_begin")
    m.itxn_group.append(m.itxn)
    grp = m.itxn_group
    m.res.effects.append(("itxn", [dict(t) for t in grp]))
    m.last_inner = [dict(t, Logs=[]) for t in grp]
    m.itxn = None
    m.itxn_group = []


# ---- ledger lookups (deterministic stubs; only stack shape matters)
def _params(group):
    def h(m, a):
        _need_app(m)
        from .spec import FIELD_GROUPS
        typ = FIELD_GROUPS[group][a[0]][0]
        m.pop()
        if group == "asset_holding":
            m.pop()
        env = m.ctx.glob.get("_" + group, {})
        if a[0] in env:
            m.push(env[a[0]]); m.push(1)
        else:
            m.push(0 if typ == "i" else b""); m.push(0)
    return h


for _g in ("asset_holding", "asset_params", "app_params", "acct_params"):
    DISPATCH[_g + "_get"] = _params(_g)
