"""Explicit-state exploration of the abstract machine of one assembled program.

Abstract state = (pc, stack of abstract types U/B/A).  For every routine (main and
each callsub target) all reachable abstract states are explored breadth-first to a
fixpoint.  Invariants checked on every state:
  * one stack height per pc inside a routine;
  * no pop below the routine's floor (main: 0; subroutine: its arguments);
  * operand types never definitely wrong for the opcode;
  * every retsub of a routine leaves the same net height (scratch convention) /
    at least frame base + R cells (proto convention), frame_dig/bury inside the frame;
  * `return` has a uint64 (or unknown) on top; program never runs off its end.
"""
from . import spec

U, B, A = "U", "B", "A"
DEEP = 64  # virtual caller cells below a scratch-convention subroutine entry


def _tymap(c):
    return {"i": U, "b": B, "a": A}[c]


class Summary:
    __slots__ = ("args", "rets", "proto", "known")

    def __init__(self):
        self.args = None
        self.rets = None
        self.proto = False
        self.known = False


class Analysis:
    def __init__(self):
        self.issues = []
        self.states = 0
        self.transitions = 0
        self.summaries = {}
        self.routines = 0
        self.max_height = 0
        self.main_return_heights = set()   # stack heights seen at a `return` of the main routine


def analyse(p, max_states=200000):
    an = Analysis()
    instrs = p.instrs
    n = len(instrs)
    entries = {}
    for ins in instrs:
        if ins.op == "callsub" and ins.args and ins.args[0] in p.labels:
            entries.setdefault(p.labels[ins.args[0]], ins.args[0])
    sums = {}
    for pc, lab in entries.items():
        s = Summary()
        if pc < n and instrs[pc].op == "proto" and len(instrs[pc].args) == 2:
            s.proto = True
            s.args, s.rets = instrs[pc].args
            s.known = True
        sums[pc] = s
    an.summaries = sums
    # iterate inference of scratch-convention summaries
    for _round in range(len(sums) + 2):
        changed = False
        for pc, s in sums.items():
            if s.known:
                continue
            r = _explore(p, pc, True, sums, None, max_states)
            if r.retsub_deltas:
                deltas = set(r.retsub_deltas)
                if len(deltas) == 1:
                    a = DEEP - r.min_height
                    s.args = a
                    s.rets = deltas.pop() + a
                    s.known = True
                    changed = True
                else:
                    s.args = DEEP - r.min_height
                    s.rets = min(deltas) + s.args
                    s.known = True
                    changed = True
        if not changed:
            break
    # final pass with issues recorded
    r = _explore(p, 0, False, sums, an, max_states)
    for pc in sorted(sums):
        _explore(p, pc, True, sums, an, max_states)
    an.routines = 1 + len(sums)
    return an


class _Res:
    def __init__(self):
        self.retsub_deltas = []
        self.min_height = DEEP


def _explore(p, entry, is_sub, sums, an, max_states):
    instrs = p.instrs
    n = len(instrs)
    res = _Res()
    s = sums.get(entry) if is_sub else None
    if is_sub:
        if s.proto:
            floor = 0
            init = tuple([A] * s.args)
        else:
            init = tuple([A] * DEEP)
            floor = DEEP - s.args if s.known else 0
    else:
        init = ()
        floor = 0
    rid = "main" if not is_sub else "sub@%s" % instrs[entry].line if entry < n else "sub@end"
    seen = {}
    work = [(entry, init, None)]  # pc, stack, frame_base (proto)
    rets_seen = set()

    def issue(pc, msg):
        if an is not None:
            ln = instrs[pc].line if pc < n else 0
            t = (rid, ln, msg)
            if t not in an.issues:
                an.issues.append(t)

    while work:
        pc, st, fb = work.pop()
        if pc >= n:
            issue(n - 1 if n else 0, "routine runs off the end of the program")
            continue
        prev = seen.get(pc)
        if prev is not None:
            pst, pfb = prev
            if len(pst) != len(st):
                issue(pc, "two stack heights at one instruction: %d and %d" % (len(pst) - (DEEP if is_sub and not s.proto else 0),
                                                                                len(st) - (DEEP if is_sub and not s.proto else 0)))
                continue
            merged = tuple(a if a == b else A for a, b in zip(pst, st))
            if merged == pst:
                continue
            st = merged
        seen[pc] = (st, fb)
        if an is not None:
            an.states += 1
            if len(st) > an.max_height:
                an.max_height = len(st)
            if an.states > max_states:
                issue(pc, "abstract state cap hit")
                return res
        ins = instrs[pc]
        o = ins.op
        a = ins.args
        stack = list(st)

        def need(k):
            if len(stack) - k < res.min_height:
                res.min_height = len(stack) - k
            if len(stack) - k < floor:
                issue(pc, "%s pops below the routine's floor" % o)
                return False
            if len(stack) < k:
                issue(pc, "%s: stack underflow" % o)
                return False
            return True

        nxt = [pc + 1]
        ok = True
        try:
            if o in ("err",):
                continue
            if o == "return":
                if need(1):
                    if stack[-1] == B:
                        issue(pc, "return with bytes on top")
                res.min_height = min(res.min_height, len(stack) - 1)
                if an is not None and not is_sub:
                    an.main_return_heights.add(len(stack))
                continue
            if o == "retsub":
                if not is_sub:
                    issue(pc, "retsub in the main routine")
                    continue
                if s.proto:
                    if fb is None:
                        issue(pc, "retsub before proto")
                    elif len(stack) < fb + s.rets:
                        issue(pc, "retsub: height %d below frame base + %d results" % (len(stack) - fb, s.rets))
                else:
                    d = len(stack) - DEEP
                    res.retsub_deltas.append(d)
                    rets_seen.add(d)
                    if len(rets_seen) > 1:
                        issue(pc, "retsub net heights differ within one routine: %s" % sorted(rets_seen))
                continue
            if o == "b":
                nxt = [_lab(p, a)]
            elif o in ("bz", "bnz"):
                ok = need(1)
                if ok:
                    _want(stack.pop(), U, issue, pc, o)
                nxt = [_lab(p, a), pc + 1]
            elif o == "switch":
                ok = need(1)
                if ok:
                    _want(stack.pop(), U, issue, pc, o)
                nxt = [p.labels.get(l) for l in a[0]] + [pc + 1]
            elif o == "match":
                k = len(a[0]) + 1
                ok = need(k)
                if ok:
                    del stack[-k:]
                nxt = [p.labels.get(l) for l in a[0]] + [pc + 1]
            elif o == "callsub":
                t = _lab(p, a)
                cs = sums.get(t)
                if cs is None or not cs.known:
                    continue  # unresolved callee: path not followed in this round
                ok = need(cs.args)
                if ok:
                    if cs.args:
                        del stack[-cs.args:]
                    stack.extend([A] * cs.rets)
            elif o == "proto":
                if pc != entry:
                    issue(pc, "proto is not the first instruction of the routine")
                fb = len(stack)
            elif o == "frame_dig":
                if fb is None:
                    issue(pc, "frame_dig without proto")
                    ok = False
                else:
                    idx = fb + a[0]
                    if idx < 0 or idx >= len(stack):
                        issue(pc, "frame_dig %d outside the frame" % a[0])
                        ok = False
                    else:
                        stack.append(stack[idx])
            elif o == "frame_bury":
                if fb is None:
                    issue(pc, "frame_bury without proto")
                    ok = False
                else:
                    ok = need(1)
                    if ok:
                        v = stack.pop()
                        idx = fb + a[0]
                        if idx < 0 or idx >= len(stack):
                            issue(pc, "frame_bury %d outside the frame" % a[0])
                            ok = False
                        else:
                            stack[idx] = v
            elif o == "dig":
                ok = need(a[0] + 1)
                if ok:
                    stack.append(stack[-1 - a[0]])
            elif o == "cover":
                ok = need(a[0] + 1)
                if ok:
                    v = stack.pop()
                    stack.insert(len(stack) - a[0], v)
            elif o == "uncover":
                ok = need(a[0] + 1)
                if ok:
                    v = stack.pop(len(stack) - 1 - a[0])
                    stack.append(v)
            elif o == "bury":
                ok = need(a[0] + 1) and a[0] >= 1
                if ok:
                    v = stack.pop()
                    stack[len(stack) - a[0]] = v
            elif o == "dupn":
                ok = need(1)
                if ok:
                    stack.extend([stack[-1]] * a[0])
            elif o == "popn":
                ok = need(a[0])
                if ok and a[0]:
                    del stack[-a[0]:]
            elif o == "dup":
                ok = need(1)
                if ok:
                    stack.append(stack[-1])
            elif o == "dup2":
                ok = need(2)
                if ok:
                    stack.extend(stack[-2:])
            elif o == "swap":
                ok = need(2)
                if ok:
                    stack[-1], stack[-2] = stack[-2], stack[-1]
            elif o == "select":
                ok = need(3)
                if ok:
                    c = stack.pop(); y = stack.pop(); x = stack.pop()
                    _want(c, U, issue, pc, o)
                    stack.append(x if x == y else A)
            elif o in ("pushints",):
                stack.extend([U] * len(a[0]))
            elif o in ("pushbytess",):
                stack.extend([B] * len(a[0]))
            elif o in ("intcblock", "bytecblock"):
                pass
            elif o in ("==", "!="):
                ok = need(2)
                if ok:
                    y = stack.pop(); x = stack.pop()
                    if x != A and y != A and x != y:
                        issue(pc, "%s compares uint64 with bytes" % o)
                    stack.append(U)
            elif o in ("setbit",):
                ok = need(3)
                if ok:
                    v = stack.pop(); i = stack.pop(); x = stack.pop()
                    _want(v, U, issue, pc, o); _want(i, U, issue, pc, o)
                    stack.append(x)
            else:
                sp = spec.OPS.get(o)
                if sp is None:
                    base = o
                    # normalised spellings
                    if o in ("txna", "itxna", "gtxnsa", "gtxna", "gitxna", "txnas", "itxnas", "gtxnas", "gtxnsas", "gitxnas"):
                        sp = spec.OPS[o]
                    else:
                        issue(pc, "unknown opcode %s" % o)
                        continue
                pops = sp.pops
                ok = need(len(pops))
                if ok:
                    for c in reversed(pops):
                        _want(stack.pop(), _tymap(c), issue, pc, o)
                    stack.extend(_push_types(o, a, sp))
        except (IndexError, TypeError, KeyError) as e:
            issue(pc, "malformed instruction for analysis: %r" % (e,))
            continue
        if not ok:
            continue
        res.min_height = min(res.min_height, len(stack))
        nst = tuple(stack)
        for t in nxt:
            if t is None:
                issue(pc, "branch to undefined label")
                continue
            if an is not None:
                an.transitions += 1
            work.append((t, nst, fb))
    return res


def _lab(p, a):
    return p.labels.get(a[0]) if a else None


def _want(got, want, issue, pc, o):
    if want != A and got != A and got != want:
        issue(pc, "%s applied to %s where %s is required" % (o, "bytes" if got == B else "uint64",
                                                             "bytes" if want == B else "uint64"))


def _push_types(o, a, sp):
    if o in ("txn", "itxn", "gtxns"):
        return [_ft(spec.TXN_FIELDS, a[0])]
    if o in ("txna", "itxna", "txnas", "itxnas", "gtxnsa", "gtxnsas"):
        return [_ft(spec.TXN_FIELDS, a[0])]
    if o in ("gtxn", "gitxn", "gtxna", "gitxna", "gtxnas", "gitxnas"):
        return [_ft(spec.TXN_FIELDS, a[1])]
    if o == "global":
        return [_ft(spec.GLOBAL_FIELDS, a[0])]
    if o in ("asset_holding_get", "asset_params_get", "app_params_get", "acct_params_get"):
        grp = o[:-4]
        return [_ft(spec.FIELD_GROUPS[grp], a[0]), U]
    if o == "block":
        return [_ft(spec.BLOCK_FIELDS, a[0])]
    if o == "json_ref":
        return [_ft(spec.JSON_REF_FIELDS, a[0])]
    return [_tymap(c) for c in sp.pushes]


def _ft(tbl, name):
    f = tbl.get(name)
    if f is None:
        return A
    return {"i": U, "b": B}.get(f[0], A)
