"""TEAL line tokenizer and literal grammar.

Written from the go-algorand assembler's behaviour (tokensFromLine,
parseStringLiteral, parseBinaryArgs), NOT from PyTeal: it is the independent
reading of what a line of emitted text means to the real assembler.
"""
import base64
import binascii
import hashlib

from algosdk import encoding as _enc


class Bad(Exception):
    """The assembler would reject this text."""


def _is_space(c):
    return c in " \t"


def tokens_from_line(line):
    """Port of go-algorand tokensFromLine (v3.15+: ';' separators supported)."""
    toks = []
    i = 0
    n = len(line)
    while i < n and _is_space(line[i]):
        i += 1
    start = i
    in_str = False
    in_b64 = False
    while i < n:
        c = line[i]
        if not _is_space(c):
            if c == '"':
                if not in_str:
                    if i == 0 or (i > 0 and _is_space(line[i - 1])):
                        in_str = True
                else:
                    if line[i - 1] != "\\":
                        in_str = False
            elif c == "/":
                if i < n - 1 and line[i + 1] == "/" and not in_b64 and not in_str:
                    if start != i:
                        toks.append(line[start:i])
                    return toks
            elif c == "(":
                pre = line[start:i]
                if pre in ("base64", "b64"):
                    in_b64 = True
            elif c == ")":
                if in_b64:
                    in_b64 = False
            elif c == ";":
                if not in_str and not in_b64:
                    if start != i:
                        toks.append(line[start:i])
                    toks.append(";")
                    i += 1
                    while i < n and _is_space(line[i]):
                        i += 1
                    start = i
                    continue
            i += 1
            continue
        if not in_str:
            tok = line[start:i]
            toks.append(tok)
            if in_b64:
                in_b64 = False
            elif tok in ("base64", "b64"):
                in_b64 = True
        i += 1
        if not in_str:
            while i < n and _is_space(line[i]):
                i += 1
            start = i
    if start < n:
        toks.append(line[start:i])
    return toks


def parse_string_literal(s: bytes) -> bytes:
    """Port of go-algorand parseStringLiteral; s includes the quotes."""
    if len(s) < 2 or s[0:1] != b'"' or s[-1:] != b'"':
        raise Bad("no quotes")
    out = bytearray()
    esc = False
    hexs = False
    pos = 1
    end = len(s) - 1
    while pos < end:
        ch = s[pos]
        if ch == 0x5C and not esc:
            if hexs:
                raise Bad("escape in hex")
            esc = True
            pos += 1
            continue
        if esc:
            esc = False
            if ch == ord("n"):
                ch = 10
            elif ch == ord("r"):
                ch = 13
            elif ch == ord("t"):
                ch = 9
            elif ch == 0x5C:
                ch = 0x5C
            elif ch == ord('"'):
                ch = ord('"')
            elif ch == ord("x"):
                hexs = True
                pos += 1
                continue
            else:
                raise Bad("invalid escape \\%c" % ch)
        if hexs:
            hexs = False
            if pos >= len(s) - 2:
                raise Bad("non-terminated hex")
            try:
                ch = int(s[pos : pos + 2].decode("ascii"), 16)
            except Exception:
                raise Bad("bad hex")
            pos += 1
        out.append(ch)
        pos += 1
    if esc or hexs:
        raise Bad("non-terminated escape")
    return bytes(out)


_B32ALPHA = set("ABCDEFGHIJKLMNOPQRSTUVWXYZ234567")


def _b32(s):
    # go: base32.StdEncoding.WithPadding(NoPadding) after trimming '='
    s = s.rstrip("=")
    if any(ch not in _B32ALPHA for ch in s):
        raise Bad("bad base32 " + s)
    if len(s) % 8 in (1, 3, 6):
        raise Bad("bad base32 length")
    try:
        return base64.b32decode(s + "=" * (-len(s) % 8))
    except (binascii.Error, ValueError) as e:
        raise Bad("bad base32: %s" % e)


def _b64(s):
    try:
        return base64.b64decode(s, validate=True)
    except (binascii.Error, ValueError) as e:
        raise Bad("bad base64: %s" % e)


def _hex(s):
    try:
        return bytes.fromhex(s)
    except ValueError as e:
        raise Bad("bad hex: %s" % e)


def parse_bytes_args(toks):
    """Decode the byte-literal that starts at toks[0]; returns (value, consumed).

    Mirrors parseBinaryArgs: base32/b32/base64/b64 in call form or as two
    tokens, 0x hex, or a quoted string.
    """
    if not toks:
        raise Bad("missing bytes literal")
    t = toks[0]
    if t.startswith("TMPL_"):
        return ("TMPL", t), 1
    for pre, fn in (("base32(", _b32), ("b32(", _b32), ("base64(", _b64), ("b64(", _b64)):
        if t.startswith(pre):
            if not t.endswith(")"):
                raise Bad("unclosed " + pre)
            return fn(t[len(pre) : -1]), 1
    if t in ("base32", "b32"):
        if len(toks) < 2:
            raise Bad("need literal after " + t)
        return _b32(toks[1]), 2
    if t in ("base64", "b64"):
        if len(toks) < 2:
            raise Bad("need literal after " + t)
        return _b64(toks[1]), 2
    if t.startswith("0x"):
        return _hex(t[2:]), 1
    if t.startswith('"'):
        return parse_string_literal(t.encode("utf-8")), 1
    raise Bad("byte arg did not parse: %r" % t)


OC_NAMES = dict(NoOp=0, OptIn=1, CloseOut=2, ClearState=3, UpdateApplication=4, DeleteApplication=5)
TYPE_NAMES = dict(unknown=0, pay=1, keyreg=2, acfg=3, axfer=4, afrz=5, appl=6)


def parse_int(tok):
    """`int` pseudo-op argument."""
    if tok.startswith("TMPL_"):
        return ("TMPL", tok)
    if tok in OC_NAMES:
        return OC_NAMES[tok]
    if tok in TYPE_NAMES:
        return TYPE_NAMES[tok]
    return parse_uint(tok, 64)


def parse_uint(tok, bits=64):
    """strconv.ParseUint(tok, 0, bits): decimal, 0x hex, 0o/0 octal, 0b binary."""
    t = tok
    if not t or t[0] in "+-":
        raise Bad("bad uint %r" % tok)
    try:
        tl = t.lower()
        if tl.startswith("0x"):
            v = int(tl[2:], 16)
        elif tl.startswith("0b"):
            v = int(tl[2:], 2)
        elif tl.startswith("0o"):
            v = int(tl[2:], 8)
        elif len(t) > 1 and t[0] == "0":
            v = int(t[1:], 8)
        else:
            if not t.isdigit() or not t.isascii():
                raise ValueError(t)
            v = int(t, 10)
    except ValueError:
        raise Bad("bad uint %r" % tok)
    if v >> bits:
        raise Bad("uint out of range %r" % tok)
    return v


def parse_addr(tok):
    if tok.startswith("TMPL_"):
        return ("TMPL", tok)
    try:
        if len(tok) != 58:
            raise ValueError("len")
        return _enc.decode_address(tok)
    except Exception as e:
        raise Bad("bad address %r: %s" % (tok, e))


def parse_method(tok):
    if len(tok) < 2 or tok[0] != '"' or tok[-1] != '"':
        raise Bad("method arg must be quoted: %r" % tok)
    sig = tok[1:-1]
    h = hashlib.new("sha512_256")
    h.update(sig.encode("utf-8"))
    return h.digest()[:4]
