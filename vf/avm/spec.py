"""AVM language specification tables (versions 1..10), written from the AVM
opcode specification.  This is the *independent* legality oracle: it is a
frozen table inside /verif, so a change of PyTeal's own tables is visible
as a disagreement.

Stack signature letters: i = uint64, b = bytes, a = any.
Immediate kinds: u8 (0..255), i8 (-128..127), label, field:<group>,
ints / bytess (constant blocks), int (pseudo), bytes (pseudo), addr, method.
"""

S, A = "S", "A"
SA = "SA"


class OpSpec:
    __slots__ = ("name", "ver", "modes", "imm", "pops", "pushes")

    def __init__(self, name, ver, modes, imm, pops, pushes):
        self.name, self.ver, self.modes, self.imm, self.pops, self.pushes = name, ver, modes, imm, pops, pushes


OPS = {}


def _op(name, ver, pops="", pushes="", imm=(), modes=SA):
    OPS[name] = OpSpec(name, ver, modes, tuple(imm), pops, pushes)


# --- v1
_op("err", 1)
_op("sha256", 1, "b", "b")
_op("keccak256", 1, "b", "b")
_op("sha512_256", 1, "b", "b")
_op("ed25519verify", 1, "bbb", "i")  # v1-4 logicsig only; modelled as both (v5+)
for _n in ("+", "-", "/", "*", "<", ">", "<=", ">=", "&&", "||", "%", "|", "&", "^"):
    _op(_n, 1, "ii", "i")
_op("==", 1, "aa", "i")
_op("!=", 1, "aa", "i")
_op("!", 1, "i", "i")
_op("len", 1, "b", "i")
_op("itob", 1, "i", "b")
_op("btoi", 1, "b", "i")
_op("~", 1, "i", "i")
_op("mulw", 1, "ii", "ii")
_op("intcblock", 1, imm=("ints",))
_op("intc", 1, "", "i", imm=("u8",))
for _k in range(4):
    _op("intc_%d" % _k, 1, "", "i")
_op("bytecblock", 1, imm=("bytess",))
_op("bytec", 1, "", "b", imm=("u8",))
for _k in range(4):
    _op("bytec_%d" % _k, 1, "", "b")
_op("arg", 1, "", "b", imm=("u8",), modes=S)
for _k in range(4):
    _op("arg_%d" % _k, 1, "", "b", modes=S)
_op("txn", 1, "", "a", imm=("field:txn",))
_op("global", 1, "", "a", imm=("field:global",))
_op("gtxn", 1, "", "a", imm=("u8", "field:txn"))
_op("load", 1, "", "a", imm=("u8",))
_op("store", 1, "a", "", imm=("u8",))
_op("bnz", 1, "i", "", imm=("label",))
_op("pop", 1, "a", "")
_op("dup", 1, "a", "aa")
# pseudo-ops (assembler level, all versions)
_op("int", 1, "", "i", imm=("int",))
_op("byte", 1, "", "b", imm=("bytes",))
_op("addr", 1, "", "b", imm=("addr",))
_op("method", 1, "", "b", imm=("method",))
# --- v2
_op("addw", 2, "ii", "ii")
_op("txna", 2, "", "a", imm=("field:txna", "u8"))
_op("gtxna", 2, "", "a", imm=("u8", "field:txna", "u8"))
_op("bz", 2, "i", "", imm=("label",))
_op("b", 2, "", "", imm=("label",))
_op("return", 2, "i", "")
_op("dup2", 2, "aa", "aaaa")
_op("concat", 2, "bb", "b")
_op("substring", 2, "b", "b", imm=("u8", "u8"))
_op("substring3", 2, "bii", "b")
_op("balance", 2, "a", "i", modes=A)
_op("app_opted_in", 2, "ai", "i", modes=A)
_op("app_local_get", 2, "ab", "a", modes=A)
_op("app_local_get_ex", 2, "aib", "ai", modes=A)
_op("app_global_get", 2, "b", "a", modes=A)
_op("app_global_get_ex", 2, "ib", "ai", modes=A)
_op("app_local_put", 2, "aba", "", modes=A)
_op("app_global_put", 2, "ba", "", modes=A)
_op("app_local_del", 2, "ab", "", modes=A)
_op("app_global_del", 2, "b", "", modes=A)
_op("asset_holding_get", 2, "ai", "ai", imm=("field:asset_holding",), modes=A)
_op("asset_params_get", 2, "i", "ai", imm=("field:asset_params",), modes=A)
# --- v3
_op("gtxns", 3, "i", "a", imm=("field:txn",))
_op("gtxnsa", 3, "i", "a", imm=("field:txna", "u8"))
_op("assert", 3, "i", "")
_op("dig", 3, "a", "aa", imm=("u8",))  # stack effect handled specially
_op("swap", 3, "aa", "aa")
_op("select", 3, "aai", "a")
_op("getbit", 3, "ai", "i")
_op("setbit", 3, "aii", "a")
_op("getbyte", 3, "bi", "i")
_op("setbyte", 3, "bii", "b")
_op("min_balance", 3, "a", "i", modes=A)
_op("pushbytes", 3, "", "b", imm=("bytes",))
_op("pushint", 3, "", "i", imm=("uint",))
# --- v4
_op("shl", 4, "ii", "i")
_op("shr", 4, "ii", "i")
_op("sqrt", 4, "i", "i")
_op("bitlen", 4, "a", "i")
_op("exp", 4, "ii", "i")
_op("divmodw", 4, "iiii", "iiii")
_op("expw", 4, "ii", "ii")
for _n in ("b+", "b-", "b/", "b*", "b%", "b|", "b&", "b^"):
    _op(_n, 4, "bb", "b")
for _n in ("b<", "b>", "b<=", "b>=", "b==", "b!="):
    _op(_n, 4, "bb", "i")
_op("b~", 4, "b", "b")
_op("bzero", 4, "i", "b")
_op("gload", 4, "", "a", imm=("u8", "u8"), modes=A)
_op("gloads", 4, "i", "a", imm=("u8",), modes=A)
_op("gaid", 4, "", "i", imm=("u8",), modes=A)
_op("gaids", 4, "i", "i", modes=A)
_op("callsub", 4, "", "", imm=("label",))
_op("retsub", 4)
# --- v5
_op("ecdsa_verify", 5, "bbbbb", "i", imm=("field:ecdsa",))
_op("ecdsa_pk_decompress", 5, "b", "bb", imm=("field:ecdsa",))
_op("ecdsa_pk_recover", 5, "bibb", "bb", imm=("field:ecdsa",))
_op("loads", 5, "i", "a")
_op("stores", 5, "ia", "")
_op("cover", 5, "a", "a", imm=("u8",))
_op("uncover", 5, "a", "a", imm=("u8",))
_op("extract", 5, "b", "b", imm=("u8", "u8"))
_op("extract3", 5, "bii", "b")
_op("extract_uint16", 5, "bi", "i")
_op("extract_uint32", 5, "bi", "i")
_op("extract_uint64", 5, "bi", "i")
_op("app_params_get", 5, "i", "ai", imm=("field:app_params",), modes=A)
_op("log", 5, "b", "", modes=A)
_op("itxn_begin", 5, modes=A)
_op("itxn_field", 5, "a", "", imm=("field:itxn_field",), modes=A)
_op("itxn_submit", 5, modes=A)
_op("itxn", 5, "", "a", imm=("field:txn",), modes=A)
_op("itxna", 5, "", "a", imm=("field:txna", "u8"), modes=A)
_op("txnas", 5, "i", "a", imm=("field:txna",))
_op("gtxnas", 5, "i", "a", imm=("u8", "field:txna"))
_op("gtxnsas", 5, "ii", "a", imm=("field:txna",))
_op("args", 5, "i", "b", modes=S)
# --- v6
_op("bsqrt", 6, "b", "b")
_op("divw", 6, "iii", "i")
_op("itxn_next", 6, modes=A)
_op("itxnas", 6, "i", "a", imm=("field:txna",), modes=A)
_op("gitxn", 6, "", "a", imm=("u8", "field:txn"), modes=A)
_op("gitxna", 6, "", "a", imm=("u8", "field:txna", "u8"), modes=A)
_op("gitxnas", 6, "i", "a", imm=("u8", "field:txna"), modes=A)
_op("gloadss", 6, "ii", "a", modes=A)
_op("acct_params_get", 6, "a", "ai", imm=("field:acct_params",), modes=A)
# --- v7
_op("replace2", 7, "bb", "b", imm=("u8",))
_op("replace3", 7, "bib", "b")
_op("base64_decode", 7, "b", "b", imm=("field:base64",))
_op("json_ref", 7, "bb", "a", imm=("field:json_ref",))
_op("ed25519verify_bare", 7, "bbb", "i")
_op("sha3_256", 7, "b", "b")
_op("vrf_verify", 7, "bbb", "bi", imm=("field:vrf_verify",))
_op("block", 7, "i", "a", imm=("field:block",))
# --- v8
_op("box_create", 8, "bi", "i", modes=A)
_op("box_extract", 8, "bii", "b", modes=A)
_op("box_replace", 8, "bib", "", modes=A)
_op("box_del", 8, "b", "i", modes=A)
_op("box_len", 8, "b", "ii", modes=A)
_op("box_get", 8, "b", "bi", modes=A)
_op("box_put", 8, "bb", "", modes=A)
_op("popn", 8, imm=("u8",))
_op("dupn", 8, "a", "a", imm=("u8",))
_op("bury", 8, "a", "", imm=("u8",))
_op("frame_dig", 8, "", "a", imm=("i8",))
_op("frame_bury", 8, "a", "", imm=("i8",))
_op("proto", 8, imm=("u8", "u8"))
_op("pushbytess", 8, imm=("bytess",))
_op("pushints", 8, imm=("ints",))
_op("switch", 8, "i", "", imm=("labels",))
_op("match", 8, "", "", imm=("labels",))
# --- v10
_op("box_splice", 10, "biib", "", modes=A)
_op("box_resize", 10, "bi", "", modes=A)
_op("ec_add", 10, "bb", "b", imm=("field:ec",))
_op("ec_scalar_mul", 10, "bb", "b", imm=("field:ec",))
_op("ec_pairing_check", 10, "bb", "i", imm=("field:ec",))
_op("ec_multi_scalar_mul", 10, "bb", "b", imm=("field:ec",))
_op("ec_subgroup_check", 10, "b", "i", imm=("field:ec",))
_op("ec_map_to", 10, "b", "b", imm=("field:ec",))

# ---------------------------------------------------------------- fields
# name -> (type, version, is_array)
TXN_FIELDS = {}


def _tf(name, typ, ver, arr=False):
    TXN_FIELDS[name] = (typ, ver, arr)


for _n in ("Sender", "Note", "Lease", "Receiver", "CloseRemainderTo", "VotePK", "SelectionPK", "Type",
           "AssetSender", "AssetReceiver", "AssetCloseTo", "TxID"):
    _tf(_n, "b", 1)
for _n in ("Fee", "FirstValid", "LastValid", "Amount", "VoteFirst", "VoteLast", "VoteKeyDilution",
           "TypeEnum", "XferAsset", "AssetAmount", "GroupIndex"):
    _tf(_n, "i", 1)
_tf("FirstValidTime", "i", 7)
for _n in ("ApplicationID", "OnCompletion", "NumAppArgs", "NumAccounts", "ConfigAsset", "ConfigAssetTotal",
           "ConfigAssetDecimals", "ConfigAssetDefaultFrozen", "FreezeAsset", "FreezeAssetFrozen"):
    _tf(_n, "i", 2)
for _n in ("ApprovalProgram", "ClearStateProgram", "RekeyTo", "ConfigAssetUnitName", "ConfigAssetName",
           "ConfigAssetURL", "ConfigAssetMetadataHash", "ConfigAssetManager", "ConfigAssetReserve",
           "ConfigAssetFreeze", "ConfigAssetClawback", "FreezeAssetAccount"):
    _tf(_n, "b", 2)
_tf("ApplicationArgs", "b", 2, True)
_tf("Accounts", "b", 2, True)
_tf("Assets", "i", 3, True)
_tf("Applications", "i", 3, True)
for _n in ("NumAssets", "NumApplications", "GlobalNumUint", "GlobalNumByteSlice", "LocalNumUint",
           "LocalNumByteSlice"):
    _tf(_n, "i", 3)
_tf("ExtraProgramPages", "i", 4)
_tf("Nonparticipation", "i", 5)
_tf("Logs", "b", 5, True)
_tf("NumLogs", "i", 5)
_tf("CreatedAssetID", "i", 5)
_tf("CreatedApplicationID", "i", 5)
_tf("LastLog", "b", 6)
_tf("StateProofPK", "b", 6)
_tf("ApprovalProgramPages", "b", 7, True)
_tf("NumApprovalProgramPages", "i", 7)
_tf("ClearStateProgramPages", "b", 7, True)
_tf("NumClearStateProgramPages", "i", 7)

# fields only readable on inner transactions / after effects
EFFECT_FIELDS = {"Logs", "NumLogs", "CreatedAssetID", "CreatedApplicationID", "LastLog"}

# fields that itxn_field can never set
ITXN_UNSETTABLE = {
    "FirstValid", "FirstValidTime", "LastValid", "Lease", "GroupIndex", "TxID", "NumAppArgs", "NumAccounts",
    "NumAssets", "NumApplications", "Logs", "NumLogs", "CreatedAssetID", "CreatedApplicationID", "LastLog",
    "NumApprovalProgramPages", "NumClearStateProgramPages",
}

# name -> (type, version, modes)
GLOBAL_FIELDS = {
    "MinTxnFee": ("i", 1, SA),
    "MinBalance": ("i", 1, SA),
    "MaxTxnLife": ("i", 1, SA),
    "ZeroAddress": ("b", 1, SA),
    "GroupSize": ("i", 1, SA),
    "LogicSigVersion": ("i", 2, SA),
    "Round": ("i", 2, A),
    "LatestTimestamp": ("i", 2, A),
    "CurrentApplicationID": ("i", 2, A),
    "CreatorAddress": ("b", 3, A),
    "CurrentApplicationAddress": ("b", 5, A),
    "GroupID": ("b", 5, SA),
    "OpcodeBudget": ("i", 6, SA),
    "CallerApplicationID": ("i", 6, A),
    "CallerApplicationAddress": ("b", 6, A),
    "AssetCreateMinBalance": ("i", 10, SA),
    "AssetOptInMinBalance": ("i", 10, SA),
    "GenesisHash": ("b", 10, SA),
}

ASSET_HOLDING_FIELDS = {"AssetBalance": ("i", 2), "AssetFrozen": ("i", 2)}
ASSET_PARAMS_FIELDS = {
    "AssetTotal": ("i", 2), "AssetDecimals": ("i", 2), "AssetDefaultFrozen": ("i", 2), "AssetUnitName": ("b", 2),
    "AssetName": ("b", 2), "AssetURL": ("b", 2), "AssetMetadataHash": ("b", 2), "AssetManager": ("b", 2),
    "AssetReserve": ("b", 2), "AssetFreeze": ("b", 2), "AssetClawback": ("b", 2), "AssetCreator": ("b", 5),
}
APP_PARAMS_FIELDS = {
    "AppApprovalProgram": ("b", 5), "AppClearStateProgram": ("b", 5), "AppGlobalNumUint": ("i", 5),
    "AppGlobalNumByteSlice": ("i", 5), "AppLocalNumUint": ("i", 5), "AppLocalNumByteSlice": ("i", 5),
    "AppExtraProgramPages": ("i", 5), "AppCreator": ("b", 5), "AppAddress": ("b", 5),
}
ACCT_PARAMS_FIELDS = {
    "AcctBalance": ("i", 6), "AcctMinBalance": ("i", 6), "AcctAuthAddr": ("b", 6),
    "AcctTotalNumUint": ("i", 8), "AcctTotalNumByteSlice": ("i", 8), "AcctTotalExtraAppPages": ("i", 8),
    "AcctTotalAppsCreated": ("i", 8), "AcctTotalAppsOptedIn": ("i", 8), "AcctTotalAssetsCreated": ("i", 8),
    "AcctTotalAssets": ("i", 8), "AcctTotalBoxes": ("i", 8), "AcctTotalBoxBytes": ("i", 8),
}
BLOCK_FIELDS = {"BlkSeed": ("b", 7), "BlkTimestamp": ("i", 7)}
ECDSA_FIELDS = {"Secp256k1": ("", 5), "Secp256r1": ("", 7)}
BASE64_FIELDS = {"URLEncoding": ("", 7), "StdEncoding": ("", 7)}
JSON_REF_FIELDS = {"JSONString": ("b", 7), "JSONUint64": ("i", 7), "JSONObject": ("b", 7)}
VRF_FIELDS = {"VrfAlgorand": ("", 7)}
EC_FIELDS = {"BN254g1": ("", 10), "BN254g2": ("", 10), "BLS12_381g1": ("", 10), "BLS12_381g2": ("", 10)}

FIELD_GROUPS = {
    "asset_holding": ASSET_HOLDING_FIELDS,
    "asset_params": ASSET_PARAMS_FIELDS,
    "app_params": APP_PARAMS_FIELDS,
    "acct_params": ACCT_PARAMS_FIELDS,
    "block": BLOCK_FIELDS,
    "ecdsa": ECDSA_FIELDS,
    "base64": BASE64_FIELDS,
    "json_ref": JSON_REF_FIELDS,
    "vrf_verify": VRF_FIELDS,
    "ec": EC_FIELDS,
}

MAX_VERSION = 10
