#!/usr/bin/env python3
"""Print the markdown table of DESIGN.md section 14 from seeded/*/meta.json."""
import json, os
HERE = os.path.dirname(os.path.dirname(os.path.abspath(__file__)))
rows = []
for name in sorted(os.listdir(os.path.join(HERE, "seeded"))):
    p = os.path.join(HERE, "seeded", name, "meta.json")
    if not os.path.exists(p):
        continue
    m = json.load(open(p))
    rows.append((name, m))
print("| seeded change | property | needs, to manifest | caught by (quick tier) | first try | strengthening |")
print("|---|---|---|---|---|---|")
for name, m in rows:
    print("| `%s` | %s | %s | %s | %s | %s |" % (
        name, m["property"], m.get("needs_to_manifest", "").replace("|", "/"),
        ", ".join(m.get("caught_by", [])) or "-",
        "caught" if m.get("caught_when_first_tried") else "missed",
        m.get("strengthening", "").replace("|", "/")))
