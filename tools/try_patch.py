#!/usr/bin/env python3
"""Apply a seeded patch to /repo, run the given checks (quick tier), undo the patch.
usage: try_patch.py <patch.diff> [--tier quick|thorough] C01 C05 ...   (default: all checks)
Prints one line per check: id, exit code, number of VIOLATION lines, first violation title."""
import json
import os
import subprocess
import sys

REPO = "/repo"
HERE = os.path.dirname(os.path.dirname(os.path.abspath(__file__)))


def main():
    args = sys.argv[1:]
    patch = os.path.abspath(args[0])
    tier = "quick"
    if "--tier" in args:
        tier = args[args.index("--tier") + 1]
        del args[args.index("--tier"):args.index("--tier") + 2]
    ids = [a.upper() for a in args[1:]] or ["C%02d" % i for i in range(1, 21)]
    st = subprocess.run(["git", "-C", REPO, "status", "--porcelain", "--untracked-files=no"], capture_output=True, text=True).stdout.strip()
    if st:
        print("refusing: /repo has uncommitted changes:\n" + st)
        return 2
    r = subprocess.run(["git", "-C", REPO, "apply", patch], capture_output=True, text=True)
    if r.returncode != 0:
        print("patch does not apply:", r.stderr)
        return 2
    results = {}
    try:
        for cid in ids:
            p = subprocess.run(["./run", cid, "--tier", tier], cwd=HERE, capture_output=True, text=True)
            lines = p.stdout.splitlines()
            viol = [l for l in lines if l.startswith("VIOLATION")]
            first = ""
            for i, l in enumerate(lines):
                if l.startswith("VIOLATION") and i + 1 < len(lines):
                    first = lines[i + 1].strip()[:160]
                    break
            err = p.stderr.strip().splitlines()[-1][:160] if p.returncode not in (0, 1) and p.stderr.strip() else ""
            results[cid] = (p.returncode, len(viol))
            print("%s exit=%d violations=%d %s %s" % (cid, p.returncode, len(viol), first, err), flush=True)
    finally:
        subprocess.run(["git", "-C", REPO, "checkout", "--", "."], check=True)
        # evidence files were rewritten against the patched tree: restore the committed ones
        subprocess.run(["git", "-C", HERE, "checkout", "--", "evidence"], check=False)
    caught = [c for c, (rc, n) in results.items() if rc == 1]
    print("CAUGHT BY:", " ".join(caught) if caught else "(none)")
    return 0


if __name__ == "__main__":
    sys.exit(main())
