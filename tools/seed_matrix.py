#!/usr/bin/env python3
"""For every seeded change under /verif/seeded (or the ones named on the command line) apply its patch to
/repo, run the quick tier of the given checks (default: all 20), undo the patch, and record which checks
report a violation in meta.json (caught_by / missed_by).  Sequential: /repo is shared state.
usage: seed_matrix.py [--checks C01,C05] [--own] [--scratch] [name ...]
  --own      run only the check of the seed's own property plus the checks already listed in caught_by
  --scratch  work on a scratch worktree of /repo and a scratch copy of /verif under /tmp (PYTHONPATH points the
             checks at the worktree), so that /repo and /verif/evidence stay untouched while the matrix runs"""
import shutil
import json
import os
import subprocess
import sys

HERE = os.path.dirname(os.path.dirname(os.path.abspath(__file__)))
SEEDED = os.path.join(HERE, "seeded")
REPO = "/repo"


def main():
    args = sys.argv[1:]
    checks = ["C%02d" % i for i in range(1, 21)]
    if "--checks" in args:
        i = args.index("--checks")
        checks = args[i + 1].split(",")
        del args[i:i + 2]
    own = "--own" in args
    if own:
        args.remove("--own")
    repo, here, env = REPO, HERE, dict(os.environ)
    if "--scratch" in args:
        args.remove("--scratch")
        repo, here = "/tmp/mut/matrix_repo", "/tmp/mut/matrix_verif"
        subprocess.run(["git", "-C", REPO, "worktree", "remove", "--force", repo], capture_output=True)
        shutil.rmtree(here, ignore_errors=True)
        subprocess.run(["git", "-C", REPO, "worktree", "add", "--detach", repo, "HEAD"], check=True, capture_output=True)
        subprocess.run(["rsync", "-a", "--exclude", ".git", "--exclude", "replays", "--exclude", "seeded", HERE + "/", here + "/"], check=True)
        env["PYTHONPATH"] = repo
    names = args or sorted(os.listdir(SEEDED))
    all_checks = checks
    for name in names:
        d = os.path.join(SEEDED, name)
        meta_p = os.path.join(d, "meta.json")
        if not os.path.exists(meta_p):
            continue
        meta = json.load(open(meta_p))
        checks = all_checks
        if own:
            checks = sorted(set([meta["property"]] + meta.get("caught_by", [])))
        st = subprocess.run(["git", "-C", repo, "status", "--porcelain", "--untracked-files=no"], capture_output=True, text=True).stdout.strip()
        if st:
            print("refusing: /repo dirty")
            return 2
        r = subprocess.run(["git", "-C", repo, "apply", os.path.join(d, "patch.diff")], capture_output=True, text=True)
        if r.returncode != 0:
            print(name, "patch does not apply:", r.stderr[:200])
            continue
        caught, missed, detail = [], [], {}
        try:
            for c in checks:
                p = subprocess.run(["./run", c, "--tier", "quick"], cwd=here, capture_output=True, text=True, env=env)
                lines = p.stdout.splitlines()
                first = ""
                for i, l in enumerate(lines):
                    if l.startswith("VIOLATION") and i + 1 < len(lines):
                        first = lines[i + 1].strip()[:200]
                        break
                if p.returncode == 1:
                    caught.append(c)
                    detail[c] = first
                elif p.returncode == 0:
                    missed.append(c)
                else:
                    detail[c] = "machinery exit %d: %s" % (p.returncode, (p.stderr.strip().splitlines() or [""])[-1][:200])
        finally:
            subprocess.run(["git", "-C", repo, "checkout", "--", "."], check=True)
            if here == HERE:
                subprocess.run(["git", "-C", HERE, "checkout", "--", "evidence"], check=False)
        meta["caught_by"] = sorted(set(meta.get("caught_by", [])) - set(checks) | set(caught))
        meta["missed_by"] = sorted((set(meta.get("missed_by", [])) - set(checks)) | set(missed))
        meta.setdefault("first_violation", {}).update(detail)
        meta["matrix_cmd"] = "tools/seed_matrix.py (git -C /repo apply patch.diff; ./run <ID> --tier quick; git -C /repo checkout -- .)"
        json.dump(meta, open(meta_p, "w"), indent=1)
        print(name, "caught by", caught, flush=True)
    if repo != REPO:
        subprocess.run(["git", "-C", REPO, "worktree", "remove", "--force", repo], capture_output=True)
        shutil.rmtree(here, ignore_errors=True)
    return 0


if __name__ == "__main__":
    sys.exit(main())
