#!/usr/bin/env python3
"""For every seeded change under /verif/seeded (or the ones named on the command line) apply its patch to
/repo, run the quick tier of the given checks (default: all 20), undo the patch, and record which checks
report a violation in meta.json (caught_by / missed_by).  Sequential: /repo is shared state.
usage: seed_matrix.py [--checks C01,C05] [name ...]"""
import json
import os
import subprocess
import sys

HERE = os.path.dirname(os.path.dirname(os.path.abspath(__file__)))
SEEDED = os.path.join(HERE, "seeded")
REPO = "/repo"


def main():
    args = sys.argv[1:]
    checks = ["C%02d" % i for i in range(1, 21)]
    if "--checks" in args:
        i = args.index("--checks")
        checks = args[i + 1].split(",")
        del args[i:i + 2]
    names = args or sorted(os.listdir(SEEDED))
    for name in names:
        d = os.path.join(SEEDED, name)
        meta_p = os.path.join(d, "meta.json")
        if not os.path.exists(meta_p):
            continue
        meta = json.load(open(meta_p))
        st = subprocess.run(["git", "-C", REPO, "status", "--porcelain", "--untracked-files=no"], capture_output=True, text=True).stdout.strip()
        if st:
            print("refusing: /repo dirty")
            return 2
        r = subprocess.run(["git", "-C", REPO, "apply", os.path.join(d, "patch.diff")], capture_output=True, text=True)
        if r.returncode != 0:
            print(name, "patch does not apply:", r.stderr[:200])
            continue
        caught, missed, detail = [], [], {}
        try:
            for c in checks:
                p = subprocess.run(["./run", c, "--tier", "quick"], cwd=HERE, capture_output=True, text=True)
                lines = p.stdout.splitlines()
                first = ""
                for i, l in enumerate(lines):
                    if l.startswith("VIOLATION") and i + 1 < len(lines):
                        first = lines[i + 1].strip()[:200]
                        break
                if p.returncode == 1:
                    caught.append(c)
                    detail[c] = first
                elif p.returncode == 0:
                    missed.append(c)
                else:
                    detail[c] = "machinery exit %d: %s" % (p.returncode, (p.stderr.strip().splitlines() or [""])[-1][:200])
        finally:
            subprocess.run(["git", "-C", REPO, "checkout", "--", "."], check=True)
            subprocess.run(["git", "-C", HERE, "checkout", "--", "evidence"], check=False)
        meta["caught_by"] = sorted(set(meta.get("caught_by", [])) - set(checks) | set(caught))
        meta["missed_by"] = sorted((set(meta.get("missed_by", [])) - set(checks)) | set(missed))
        meta.setdefault("first_violation", {}).update(detail)
        meta["matrix_cmd"] = "tools/seed_matrix.py (git -C /repo apply patch.diff; ./run <ID> --tier quick; git -C /repo checkout -- .)"
        json.dump(meta, open(meta_p, "w"), indent=1)
        print(name, "caught by", caught, flush=True)
    return 0


if __name__ == "__main__":
    sys.exit(main())
