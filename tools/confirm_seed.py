#!/usr/bin/env python3
"""Confirm a seeded change produced in a scratch worktree and store it under /verif/seeded/<name>/.
usage: confirm_seed.py <name> <worktree> <property> "<what it needs to manifest>"
Confirms (1) the demo fails with the change, (2) passes without it, (3) the baseline test suite still
passes with the change.  Writes patch.diff, the demo and meta.json."""
import glob
import json
import os
import shutil
import subprocess
import sys


def sh(cmd, cwd, timeout=3600):
    p = subprocess.run(cmd, cwd=cwd, shell=True, capture_output=True, text=True, timeout=timeout)
    return p.returncode, (p.stdout + p.stderr)[-1500:]


def main():
    name, wt, prop, needs = sys.argv[1:5]
    demos = glob.glob(os.path.join(wt, "demo_*.py"))
    if not demos:
        print("no demo in", wt)
        return 2
    demo = demos[0]
    rc, diff = sh("git diff", wt)
    diff = subprocess.run("git diff", cwd=wt, shell=True, capture_output=True, text=True).stdout
    if not diff.strip():
        print("no uncommitted change in", wt)
        return 2
    ran = []
    rc_changed, out_changed = sh("/venv/bin/python %s" % os.path.basename(demo), wt)
    ran.append({"cmd": "demo on changed tree", "exit": rc_changed, "tail": out_changed[-400:]})
    # not `git stash`: the stash is shared by all worktrees of one repository, so parallel confirmations would swap changes
    import tempfile
    pf = tempfile.NamedTemporaryFile("w", suffix=".diff", delete=False)
    pf.write(diff)
    pf.close()
    sh("git apply -R %s" % pf.name, wt)
    try:
        rc_orig, out_orig = sh("/venv/bin/python %s" % os.path.basename(demo), wt)
    finally:
        sh("git apply %s" % pf.name, wt)
        os.unlink(pf.name)
    ran.append({"cmd": "demo on original tree", "exit": rc_orig, "tail": out_orig[-400:]})
    rc_base, out_base = sh("python3 %s %s" % (os.path.join(os.path.dirname(os.path.abspath(__file__)), "baseline_check.py"), wt), wt)
    ran.append({"cmd": "baseline_check.py (repository test suite with the change)", "exit": rc_base, "tail": out_base[-300:]})
    ok = rc_changed != 0 and rc_orig == 0 and rc_base == 0
    print(json.dumps(ran, indent=1))
    if not ok:
        print("NOT CONFIRMED")
        return 1
    dst = os.path.join(os.path.dirname(os.path.dirname(os.path.abspath(__file__))), "seeded", name)
    os.makedirs(dst, exist_ok=True)
    open(os.path.join(dst, "patch.diff"), "w").write(diff)
    shutil.copy(demo, os.path.join(dst, os.path.basename(demo)))
    meta = {"property": prop, "needs_to_manifest": needs, "confirmed": ran, "origin": "independent sub-agent given only the property text",
            "caught_by": [], "missed_by": []}
    json.dump(meta, open(os.path.join(dst, "meta.json"), "w"), indent=1)
    print("CONFIRMED ->", dst)
    return 0


if __name__ == "__main__":
    sys.exit(main())
