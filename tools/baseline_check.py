#!/usr/bin/env python3
"""Run the repository's test suite (guard off) and compare with the stable_pass set of /root/.vp/BASELINE.json.
usage: baseline_check.py [repo_dir] [-n JOBS]      exit 0 iff every stable_pass test still passes."""
import json, os, subprocess, sys, tempfile
import xml.etree.ElementTree as ET
repo = sys.argv[1] if len(sys.argv) > 1 and not sys.argv[1].startswith("-") else "/repo"
jobs = "12"
if "-n" in sys.argv:
    jobs = sys.argv[sys.argv.index("-n") + 1]
base = json.load(open("/root/.vp/BASELINE.json"))
stable = set(base["stable_pass"])
env = dict(os.environ)
env.pop("PYTEAL_VERIF", None)


def run(extra, xml):
    cmd = ["/venv/bin/python", "-m", "pytest", "-q", "-p", "no:cacheprovider", "--timeout=900",
           "--continue-on-collection-errors", "--junitxml=" + xml] + extra
    subprocess.run(cmd, cwd=repo, env=env, stdout=subprocess.DEVNULL, stderr=subprocess.DEVNULL)
    passed = set()
    for tc in ET.parse(xml).getroot().iter("testcase"):
        if not any(ch.tag in ("failure", "error", "skipped") for ch in tc):
            passed.add("%s::%s" % (tc.get("classname"), tc.get("name")))
    return passed


with tempfile.TemporaryDirectory() as td:
    passed = run(["-n", jobs] if jobs != "0" else [], os.path.join(td, "a.xml"))
    missing = sorted(stable - passed)
    if missing and jobs != "0":
        # order-sensitive tests: re-run the files of the missing ones serially
        files = sorted({m.split("::")[0].replace(".", "/") + ".py" for m in missing})
        passed |= run(files, os.path.join(td, "b.xml"))
        missing = sorted(stable - passed)
print("stable_pass=%d still_passing=%d missing=%d" % (len(stable), len(stable & passed), len(missing)))
for m in missing[:40]:
    print("MISSING", m)
sys.exit(1 if missing else 0)
