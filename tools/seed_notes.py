#!/usr/bin/env python3
"""Record, per seeded change, whether the checks caught it when it was first tried and what was strengthened."""
import json, os
HERE = os.path.dirname(os.path.dirname(os.path.abspath(__file__)))
NOTES = {
 "C01-while-trailing-break": (True, ""),
 "C01-flatten-two-jump-bz": (True, ""),
 "C02-abi-output-byref-frame-index": (False, "C02 had no ABI-returning routine with a by-reference parameter; family abi_byref (5 positions x nested/not) added to gen_abisub"),
 "C02-forwarded-byref-slot-index": (True, ""),
 "C03-optimizer-index-only": (True, ""),
 "C03-skip-slots-kept-on-options": (False, "no check reused one OptimizeOptions object; C03 gained the shared-options driver (ordered pairs of programs compiled with one options object vs a fresh one)"),
 "C04-slot-limit-per-routine": (False, "caught by C10 at once; C04 itself had no program near the slot limit: slot_programs() added"),
 "C04-substring-immediate-by-length": (True, "C01 crashed (exit 2) on the unassemblable text; the interpreter now fails such programs and C01 reports 'does not assemble'"),
 "C05-optimizer-index-only": (True, ""),
 "C05-v4-spill-flag-not-reset": (False, "no caller made two re-entrant calls of different return shapes; family F7 added to gen_sub (used by C02/C03/C05)"),
 "C06-bool-run-head-length": (True, ""),
 "C06-uint-set-width-guard": (False, "C06 only assembled uints from literals/expressions; cross-width set from another ABI uint added"),
 "C07-index-tuple-merged-bool-runs": (False, "the shape universe had no bool runs separated by a static element between two dynamic ones; all tuples of arity 3-5 over {bool, byte, string} added"),
 "C08-decorator-delete-kw": (False, "C08 registered methods only through add_method_handler; the @router.method(...) path with every MethodConfig added (also application id 1 and 2^64-1 in the call alphabet)"),
 "C09-tuplify-counts-txn-params": (False, "no signature combined 13-16 plain parameters with transaction parameters; family added"),
 "C10-skip-one-reserved-id": (False, "requested-id patterns had no run of consecutive ids away from 0; mid_block / high_block / pairs added"),
 "C11-router-resets-slot-counter": (False, "histories were complete before the probe was built; split probes (activity between the construction of a program's objects and its compilation) added"),
 "C12-intc-index-from-sorted": (False, "sequences of <= 4 loads cannot hold 6 repeated constants; frequency-rank driver (all orderings of 7 constants over a frequency profile) added"),
 "C13-escape-skips-backslash-quote": (False, "the plain text still decodes correctly under the assembler's quote rule; only assembleConstants=True shows wrong bytes: C13 now also checks every literal through the constant assembler"),
 "C14-account-index-from-apps": (True, ""),
 "C15-vlq-decode-shift": (True, ""),
 "C16-literal-zero-factor-skipped": (False, "factors were always run-time values; literal Int factors at every position added"),
 "C17-memo-key-by-count": (False, "needs 4 nodes (If/Else storing different variables + load); quick bound was 3: core alphabet explored one node deeper"),
 "C18-assert-comment-v2-raw": (False, "quick tier compiled at v6/v8 only; version 2 (and 3/4 in thorough) added"),
 "C19-tuple-longer-source": (True, ""),
 "C07-suffix-extract3-zero-length": (False, "C01 caught it at once (Suffix of a full-length string); C07's tuples never ended in a static element after an empty dynamic one, and offsets never reached 256: big-offset tuples and empty trailing strings added"),
 "C08-bare-only-router-drops-numargs-guard": (True, ""),
 "C09-reference-static-length-bits": (True, ""),
 "C10-optimizer-scans-from-current-block": (False, "C01 caught it at once; C03's known-finding signature for the optimiser defect was too broad and absorbed it: the signature now requires that no unpaired load was deleted"),
 "C11-probe-discards-cached-declaration": (False, "the probes compiled one program once; probes that query or compile between two compilations of the same objects (same_expr_probe_between, router_twice) added"),
 "C12-unescape-double-utf8": (False, "C13 caught it at once; C12's byte spellings had no non-ASCII / backslash-quote strings: added"),
 "C13-methodsig-strips-whitespace": (True, ""),
 "C14-tuple-length-not-compared": (False, "C19 caught it at once; C14's ill-typed arguments were a hand-picked list: replaced by every ordered pair (given type, declared type) of C19's plain-type universe at the MethodCall site"),
 "C15-sources-sorted-by-name": (True, ""),
 "C16-compound-third-factor-wiring": (True, ""),
 "C17-reserved-slots-counted-as-written": (True, ""),
 "C18-label-comment-indented-continuation": (True, ""),
 "C19-address-to-any-32-array": (True, ""),
 "C20-flatten-referer-wrong-index": (True, ""),
 "C01-slot-assign-skips-one-pinned": (False, "C10 caught it at once; C01's programs had no requested slot ids: driver C-pinned (two live variables with adjacent requested ids beside every small control-flow recipe) added"),
 "C02-v4-dig-cleanup-uses-caller-return": (True, ""),
 "C03-abi-recursion-spill-counts-output": (False, "C02 caught it at once; C03 compared option settings only on recipe programs: the hand-written ABI-subroutine programs of gen_abisub are now compared across all option settings too"),
 "C04-flatten-reference-count-true-twice": (True, ""),
 "C05-flatten-drops-bnz-same-target": (True, ""),
 "C06-string-literal-prefix-divmod-255": (True, "(caught because 300-byte strings had been added after round 1)"),
 "C07-namedtuple-field-index-shared": (False, "all named tuples used f0..fn in order: a decoy NamedTuple class with the same names at rotated positions is instantiated before / after the type under test"),
 "C08-method-signature-cached": (False, "every handler object was registered once: family (e) explores every history <= 3 of {query signature, register in router A/B under own/overriding name} on one shared handler object"),
 "C09-selector-collision-guard-keyed-by-signature": (False, "no two methods with colliding selectors: C08 family (f) computes a colliding pair (first collision of c0, c1, ...) and requires the second registration to be refused; C09 gained naming cases (overriding name, parameter names) which exposed two genuine contract defects, repaired in /repo"),
 "C10-frame-local-limit-ignores-output-cell": (False, "ABI locals were only placed in plain subroutines: placement 'abisub' (ABI-returning subroutine, output cell in the frame) added"),
 "C11-compilation-object-keeps-graphs": (False, "repeat probes used compileTeal (a fresh Compilation each time): probe same_expr_one_compilation_object calls compile() three times on one object"),
 "C12-extractors-share-literal-cache": (False, "C13 caught it at once; C12's alphabet had no two constants of different kinds with the same text: Bytes('f()void'), Bytes(<address text>), Bytes('0x61'), Bytes('TMPL_B') added"),
 "C13-base64-match-trailing-newline": (True, ""),
 "C14-signature-uint-width-rounded-up": (False, "declared types were drawn from PyTeal's own type specs: C14 and C19 now also declare ARC-4 types that exist only as signature text (uint24..uint512, ufixed, and composites of them) and compare layouts through a normal form of the reference codec's type"),
 "C15-router-clear-map-is-approval-map": (False, "C15 compiled only through Compilation: 15 generated Router modules (bare action x 0-2 methods x clear-state kinds) are compiled with Router.compile(with_sourcemaps=True) and both programs' maps are checked"),
 "C16-v8-fast-path-skips-quotient-check": (True, ""),
 "C17-flatten-drops-b-when-targets-coincide": (False, "C01 caught it at once; C17 looked only at accept/reject: it now searches every accepted program's EMITTED TEAL (states (pc, stored slots)) for a load before a store, and explores the core alphabet again after two degenerate-loop prefixes (non-initial control-flow states)"),
 "C20-replace-outgoing-elif": (True, ""),
 "C20-normalize-structural-in": (False, "recipes never used one Expr object twice; 'share' build mode added (C20, C01)"),
}
for name, (caught, note) in NOTES.items():
    p = os.path.join(HERE, "seeded", name, "meta.json")
    if not os.path.exists(p):
        continue
    m = json.load(open(p))
    m["caught_when_first_tried"] = caught
    if note:
        m["strengthening"] = note
    json.dump(m, open(p, "w"), indent=1)
print("ok")
