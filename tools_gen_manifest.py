#!/usr/bin/env python3
"""Regenerates MANIFEST.json from the table below (kept in one place so it is always valid)."""
import json, os
HERE = os.path.dirname(os.path.abspath(__file__))
CHECKS = {
 "C01": dict(tech="explicit-state BFS over program recipes x configs x inputs; compiled TEAL executed on reference AVM vs direct evaluator",
             text="Bounded exhaustive exploration: every control-flow recipe up to the node bound, every operator on every leaf tuple, every nesting of order-revealing operators with effectful leaves, every read/effect constructor, the small recipes again with shared Expr objects and beside live variables with requested adjacent slot ids, every ordered pair of binary operators in both nestings over boundary operands (E3), every {returns, falls through} assignment over conditional chains closing a routine, ordered pairs of programs compiled with one OptimizeOptions object; each compiled under every listed version/mode/option and executed on the reference AVM for every input of the alphabet, compared with a direct evaluator of the recipe.",
             note="trusts the reference AVM interpreter (self-test + golden corpus) and the direct evaluator; values from boundary alphabets; nothing claimed above the size bound", ref="2/C01"),
 "C20": dict(tech="explicit-state BFS over control-flow shapes (main/bare/subroutine), degenerate and long programs x configs; outcome class must be TEAL or a PyTeal error; valid shapes must be accepted",
             text="Bounded exhaustive exploration of every control-flow recipe up to the node bound in three placements (after a store, as first statement, inside a subroutine), hand-listed degenerate shapes, ill-formed programs, long and deep programs, programs with many requested slots, return-analysis chains and programs compiled with a used OptimizeOptions object, under every listed version/option; any exception other than PyTeal's own error types, and any rejection of a syntactically valid recipe, is a violation.",
             note="validity of a recipe is decided syntactically; runs with the default recursion limit; sizes above the stated bounds are not claimed", ref="2/C20"),
 "C02": dict(tech="exhaustive enumeration of call-graph recipe families x configs x recursion arguments; execution on reference AVM with callsub/retsub boundary recording vs direct evaluator",
             text="Bounded exhaustive exploration of call graphs (self and mutual recursion, rings of 1-6 (8) routines, plain subroutines with ABI temporaries, arities 1-3, 0-3 locals, by-value / by-reference / ABI parameters, all return types, Return at every position, every call-site kind) under versions 4-10 and both calling conventions; compared with a Python-recursion reference and a frame invariant at every callsub/retsub boundary.",
             note="trusts the reference AVM and the evaluator; recursion arguments 0..5; template families, not arbitrary bodies", ref="2/C02"),
 "C04": dict(tech="exhaustive enumeration of recipes + constructor sweep x versions x modes; independent TEAL grammar + langspec table + exhaustive CFG walk of each emitted text",
             text="Every text emitted for the recipe populations, for every public constructor at boundary immediates, for label-stress shapes, return-analysis chains, programs around the frame-local and slot limits and Router programs (action shapes, clear-state variants, method pairs), under versions 2-10 and both modes, is parsed by an independent assembler front-end with a frozen langspec table; its CFG is walked exhaustively for termination / routine separation.",
             note="langspec table written from the AVM spec and calibrated on the 185 golden TEAL files; itxn-specific field versions not modelled", ref="2/C04"),
 "C05": dict(tech="per emitted program: explicit-state exploration of the abstract machine (pc, type stack, frame) to a fixpoint; plus dynamic type/underflow fault check on the input alphabet",
             text="For every emitted program of the recipe populations (incl. ABI-subroutine programs, every routine of 1-6 ABI arguments over {uint64, bytes} with every position used by its own and by the other type's opcode, return-analysis chains, Router programs, and the constructor sweep wrapped by declared type: exactly one value at the main routine's return) and configurations, all reachable abstract states of every routine are explored (one height per pc, no pop below the routine's floor, no definitely wrong operand type, consistent retsub heights, frame accesses inside the frame); programs without anytype expressions are also executed and must not fault with a type or underflow error.",
             note="opcode stack signatures from vf/avm/spec.py; callsub summaries inferred; slot contents are untyped (load yields unknown)", ref="2/C05"),
 "C03": dict(tech="exhaustive enumeration of recipes (control flow, call graphs, all store/load sequences over the optimiser alphabet) x all option/version settings; differential execution on the reference AVM against a pivot configuration",
             text="Every recipe (and every hand-written ABI-subroutine program of the C02 families) is compiled under every option setting and version at which it compiles; all results run on every input and must agree with the pivot in verdict, value, effects and user-numbered scratch slots; pairs differing only in the slot optimisation must also agree on the stack portion a routine owns whenever control leaves it.",
             note="reference AVM; spilled caller slots are excluded from the stack comparison (implementation detail of the calling convention)", ref="2/C03"),
 "C17": dict(tech="exhaustive enumeration of store/load placements over control-flow shapes; oracle = explicit-state reachability over (position, stored-set) on the recipe's syntactic CFG",
             text="All placements of stores and loads of two routine-local variables over all control-flow shapes up to the node bound, in main and in a subroutine, as ScratchVars with automatic and requested slots, as abi.Uint64 values (set/get) and as bare ScratchSlots, with a third atom that only takes a slot's index, after degenerate-loop prefixes, and for one subroutine shared by two programs: whenever the independent path search finds a load reachable without a store, compilation must fail with PyTeal's uninitialised-slot error naming a load of such a variable; and the EMITTED text of every accepted program is searched (states (pc, stored slots)) for a load before a store.",
             note="one direction only (the statement's): acceptance of initialised programs is C20's business; syntactic paths", ref="2/C17"),
 "C18": dict(tech="exhaustive enumeration of insertion points x annotation kinds x all texts up to a length bound; normalised instruction streams compared via the independent TEAL grammar",
             text="Every insertion point of every base program x Comment / Assert comment / Pragma / Nonce / subroutine name x every text of length <= L over an adversarial alphabet (quotes, //, ;, backslash, line breaks, U+2028, colon) plus a list of nasty and long (68..4094 characters) texts, Comments standing as statements of their own, two subroutines given one name: comment lines dropped, labels alpha-renamed, the Nonce byte/pop pair removed, the instruction streams must be identical and the annotated text must still assemble.",
             note="line structure as the go-algorand assembler sees it (only \\n ends a line)", ref="2/C18"),
 "C12": dict(tech="exhaustive enumeration of constant-load sequences over a spelling alphabet, k repeated constants for k up to 300, control-flow recipes; site-by-site comparison through an independent literal decoder + differential execution",
             text="Every sequence of <= k constant loads over 24 spellings (ints, named enums, every byte-literal syntax, addr, method, templates, and byte strings whose text equals the text of a constant of another kind), k distinct repeated constants for k crossing 4/128/255/256, and control-flow recipes, compiled with and without assembleConstants at several versions: each constant site must load the value the pseudo-op denotes through an in-range, encodable block index, all other instructions are identical, and both programs behave identically.",
             note="literal grammar of vf/avm/tokens.py; reference AVM", ref="2/C12"),
 "C13": dict(tech="exhaustive enumeration of literal texts up to a length bound over adversarial alphabets per literal kind; emitted line decoded by an independent port of the go-algorand literal grammar vs Python's decoding",
             text="Every string of length <= L over an 18-character adversarial alphabet for Bytes(str), all single bytes (pairs in thorough), every base16/32/64 text up to length 4-5 over mixed valid/invalid alphabets, every single-character corruption of two valid addresses, boundary Ints, every MethodSignature text up to length 3-4: the program must keep its instruction count and the decoded literal must equal Python's decoding; malformed literals must be rejected at construction.",
             note="go-algorand tokenizer/literal grammar ported in vf/avm/tokens.py; RFC 4648 well-formedness", ref="2/C13"),
 "C16": dict(tech="exhaustive enumeration of factor-count shapes x all assignments of a boundary value alphabet + constructed near-overflow lists; execution on reference AVM vs Python big integers",
             text="For every (n,d) shape (built in one call, incrementally, and through the keyword call styles; run-time and literal factors), every assignment of the per-shape boundary alphabet and constructed factor lists around 2^64 and 2^128: the compiled WideRatio must approve with exactly floor(prod n / prod d) when every running product fits 128 bits, the denominator is non-zero and the quotient fits 64 bits, and must fail otherwise.",
             note="reference AVM wide arithmetic; values from boundary alphabets", ref="2/C16"),
 "C19": dict(tech="exhaustive enumeration of all ordered pairs of a bounded ABI type universe; independent ARC-4 layout normal form + reference codec on sample values; call-site cross-check",
             text="All ordered pairs of 224 (thorough: more) type specs: assignable(a,b) must imply equal normalised ARC-4 layouts and identical reference encodings of sample values; subroutine parameters must accept exactly the assignable argument types; MethodCall sites (also for ARC-4 types that exist only as signature text), B().set(<A value>) sites and element sites (a[0].store_into / set(a[0])) may only accept equal layouts.",
             note="algosdk.abi as reference codec; universe bounded to depth 2", ref="2/C19"),
 "C06": dict(tech="exhaustive enumeration of ABI type shapes x boundary-value combinations x construction mode x storage back-end x versions; compiled program executed on reference AVM vs algosdk ARC-4 codec",
             text="All type shapes of the universe (base types, static/dynamic arrays, tuples, named tuples, every bool run bool^1..17 with prefixes/suffixes, depth-2 composites): descriptor strings / static length / dynamic-ness compared with the reference codec, and values assembled with set(...) from Python literals and from run-time expressions, in the main routine and in a subroutine (frame variables), (also with equal parts being ONE shared object, and with parts that are instances of user subclasses of the ABI classes) must log exactly the reference encoding; out-of-range integers rejected at build (literals) or failing at run time (expressions).",
             note="algosdk.abi as the ARC-4 reference; value combinations capped per shape (cap in evidence)", ref="2/C06"),
 "C07": dict(tech="exhaustive enumeration of shapes x every element position/accessor x boundary values; compiled extraction program run on reference encodings vs the component's reference encoding",
             text="For every shape, every tuple index / named field (also with a second NamedTuple class that uses the same field names at other positions instantiated before / after) / array index (constant and run-time, in range and out of range incl. 7/8/15/16 for bit-packed arrays), get() and length(), outputs that are instances of user subclasses: decode + access must yield the component's reference encoding for every boundary value; out-of-range indices must fail.",
             note="algosdk.abi as reference; reference AVM", ref="2/C07"),
 "C10": dict(tech="exhaustive enumeration of cell populations (n over a list crossing 128 and 256) x requested-id patterns x placements x kinds x options; marker write/read-back executed on reference AVM",
             text="Programs with n simultaneously live cells for every n in the list, with automatic / requested / colliding / duplicate slot ids, spread over main and subroutines, as ScratchVars, ABI values (frame locals beyond 128, in plain and in ABI-returning subroutines), MaybeValue outputs and DynamicScratchVar aliases, in the entry block, in a branch, in twin blocks, with up to half of the ids requested, and built after a wrapper query that rewinds the slot counter: every marker must survive, requested ids must be the ones index() sees, >256 cells or duplicate ids must be rejected.",
             note="reference AVM scratch/frame semantics", ref="2/C10"),
 "C08": dict(tech="exhaustive enumeration of router configurations (all MethodConfigs, all bare-call configurations, method pairs, clear-state variants) x full call alphabet; compiled router executed on reference AVM vs a documentation-derived lookup table",
             text="Every MethodConfig of one method (1023), every bare-call configuration (1024), every ordered pair of methods over a reduced config alphabet, three-method routers, empty routers and six clear-state action kinds, every history of <= 3 (4) operations {query the signature, register in router A / B under the own / an overriding name} on ONE shared handler object, pairs of methods with equal or colliding selectors (which must be refused), ten action shapes as bare / clear-state action, one action object shared by several slots, and router life cycles (compile - register - compile): each compiled with the real Router at several versions and called with every (selector or none / unknown / truncated / over-long, OnCompletion, create or not) combination; the handler logged must be exactly the one the registration table selects, everything else must be rejected; the clear program must run exactly the given action.",
             note="reference AVM; ClearState never reaches an approval program on chain", ref="2/C08"),
 "C09": dict(tech="exhaustive enumeration of method signature families x value variants; transaction groups built by algosdk's AtomicTransactionComposer executed on the reference AVM; logs vs reference encodings",
             text="Parameter lists of every length 0..17 by position patterns (the 14/15/16/17 tuple cutoff fully), all lists of length <= 2 (3) over five plain types, transaction and reference parameters at every position of lists up to length 4, void/uint64/string/tuple results: the method logs each received argument re-encoded, which must equal the client's reference encoding; one return log with the 0x151f7c75 prefix; a wrong transaction type must fail; the ABI contract's signatures/selectors and argument names must be the ones the approval program dispatches on, also for methods registered under an overriding name (both registration paths) and for parameter names that collide with PyTeal's reserved keyword names, and for routers recompiled after a late registration (life-cycle histories <= 4).",
             note="algosdk ATC + abi codec as the independent client; reference AVM", ref="2/C09"),
 "C14": dict(tech="exhaustive enumeration of method signature families x value variants x argument forms; inner group recorded by the reference AVM decoded by an independent callee-side ARC-4 decoder",
             text="For C09's signature families, ExecuteMethodCall with ABI values and with pre-encoded expressions, with and without extra fields: the recorded inner group must decode (selector, per-argument app args with arguments 15+ as one tuple, references through foreign arrays, transaction arguments as the preceding inner transactions) to the arguments given (accounts as literals / the application's address / the outer sender, array-valued and sender extra fields, the signature helper's list consumed beforehand); for every ordered pair (given type, declared type) of a 214-type universe whose ARC-4 layouts differ, and a list of other ill-typed arguments, the call must be rejected at build time.",
             note="algosdk.abi as decoder; reference AVM inner transaction model", ref="2/C14"),
 "C11": dict(tech="explicit-state exploration of API-activity histories (length <= L over 17 activities) replayed in children forked from fresh interpreters; probes compared byte-for-byte with history-free baselines; baselines compared across hash seeds",
             text="The stateful property: every history of earlier API activity (successful and failing compilations at various versions/options, subroutine bodies raising with and without frame pointers, unused definitions, has_return probing, templates, router builds, source-map gate toggling) up to the length bound is replayed in a child forked from a fresh interpreter, then the probes x two versions are compiled and compared with the baseline of a fresh process (an activity with 'namesake' objects - same subroutine names, field names, literal texts as the probes' - is part of the alphabet); split probes run the history between the construction of a program's objects and its compilation; baselines are compared across six hash seeds and shifted allocation; repeated compilation of one expression / one router / one Compilation object must reproduce the text. Global states reached are reported.",
             note="hash seeds / allocation order cannot be exhausted (finite listed set); histories exhaustive up to the bound", ref="2/C11"),
 "C15": dict(tech="exhaustive round-trip enumeration of the VLQ codec and small R3 maps; recipes rendered as generated Python source files compiled with source maps in fresh interpreters (gate on/off), checked line by line against recorded marker positions",
             text="Every integer of a range and every short tuple through the VLQ codec (against an independently written Revision-3 VLQ codec too); every small Revision-3 map through to_json/from_json and through an independent Revision-3 decoder; control-flow and call-graph recipes rendered as generated source files (two modules, a unique marker constant per line, a variant with 3000 leading blank lines, look-alike Python comments behind the constants) and 15 generated Router modules compiled with_sourcemap under every annotate option: TEAL identical with/without map and with the gate on/off, one entry per TEAL line in order, existing file and line, each marker attributed to the line that wrote it, JSON round trip, annotated TEAL equal to plain TEAL once comments are removed.",
             note="PC-based maps (algod) out of scope; generated files live in a scratch directory under /tmp that is removed", ref="2/C15"),
}
NOT_YET = {}
# drivers added in wave 7 (appended to the texts above)
ADD7 = {
 "C02": " Also: a recursive routine whose local is handed out by reference and needed after the recursion; every call graph over <= 3 routines x definition order; Break / Continue / Return inside an operand of a subroutine body (known finding).",
 "C03": " Also: Routers with 15-17 argument methods under every pair of option settings, run on client-built calls.",
 "C04": " Also: the constructor sweep behind a leading Comment statement.",
 "C05": " Also: the operand-transfer family (Break / Continue / Return inside an operand; known finding for members with pending operands).",
 "C06": " Also: the value built as the output of an ABI-returning subroutine whose frame holds 126/127 (thorough 0..129) other ABI locals.",
 "C07": " Also: one element accessor object used twice.",
 "C10": " Also: a DynamicScratchVar passed by reference (directly and forwarded).",
 "C11": " Also: the same objects compiled for v7 / v8 without frame pointers / v8 against a fresh v8 compilation.",
 "C12": " Also: a repeated constant first seen after up to 2001 (3001) single-use constants.",
 "C13": " Also: Bytes(bytearray) whose buffer the caller changes afterwards.",
 "C14": " Also: a Router method forwarding the ABI values it received (reference types included) into an inner method call.",
 "C15": " Also: populations of repeated markers with assembled constants.",
 "C16": " Also: one evaluation-counting expression object at every numerator / denominator position.",
 "C17": " Also: histories in which a subroutine is queried on the side before the variables are made.",
 "C18": " Also: every annotated tree compiled a second time.",
 "C19": " Also: call sites of a subroutine object that was called with the declared type before.",
 "C20": " Also: every call graph over <= 3 (4) routines x definition order, then-only nesting to depth 150 (300), and a 300 s compile budget per program (no result = violation).",
}
for _k, _v in ADD7.items():
    CHECKS[_k]["text"] += _v
# drivers added in wave 8
ADD8 = {
 "C02": " By-reference calls in non-entry blocks of the caller.",
 "C04": " Out-of-range immediates in every argument form of ImportScratchValue / GeneratedID.",
 "C05": " Type-confusion sweep: every constructor x every literal leaf replaced by a leaf of the other stack type or a value-less expression; byte-string variables written on some paths only.",
 "C06": " abi.StaticBytes / abi.DynamicBytes shapes; byte[N] and address given other widths (literal refused, expression fails).",
 "C07": " abi.StaticBytes / abi.DynamicBytes shapes and neighbouring members of one aggregate class with different sizes.",
 "C09": " Every typed transaction kind x every actual transaction type x constants assembled or not; colliding selectors.",
 "C10": " By-reference into ABI-returning subroutines; a variable reused across blocks with the optimiser on.",
 "C12": " Per-kind literal populations (all named constants, all base32/64/16 length classes, special first characters); a program that compiles without the option must compile with it.",
 "C13": " Byte-order mark and U+2028 in the text alphabet.",
 "C16": " Ratios nested in ratios.",
 "C17": " Byte-string variables.",
 "C18": " Configurations with the slot optimiser on (known finding: an annotation between a store and its load blocks the cancellation).",
 "C20": " Valid read-after-conditional-write programs with exits must be accepted.",
}
for _k, _v in ADD8.items():
    CHECKS[_k]["text"] += _v
props = [json.loads(l) for l in open(os.path.join(HERE, "properties.jsonl"))]
checks = []
na = []
for p in props:
    pid = p["id"]
    if pid in CHECKS:
        c = CHECKS[pid]
        checks.append({
            "property_id": pid,
            "quick_cmd": "./run %s --tier quick" % pid,
            "thorough_cmd": "./run %s --tier thorough" % pid,
            "evidence_file": "/verif/evidence/%s.json" % pid,
            "replay_cmd_template": "./run %s --replay {path}" % pid,
            "engine": "vf-explorer",
            "level_claimed": {"category": "model_checking", "text": c["text"], "design_ref": c["ref"]},
            "level_note": c["note"],
            "technique": c["tech"],
        })
    else:
        na.append({"property_id": pid, "reason": NOT_YET.get(pid, "check not built yet in this round; bounded exhaustive exploration is applicable (see DESIGN.md section 2) and will be registered when its driver exists")})
m = {
 "version": 1,
 "setup_cmd": "./run selftest",
 "hooks": {"guard": "PYTEAL_VERIF", "enable": "no instrumentation of /repo is needed; checks import pyteal from /repo's working tree (editable install) with PYTEAL_VERIF=1 set", "baseline_off_cmd": "cd /repo && /venv/bin/python -m pytest -ra -q -p no:cacheprovider --timeout=900 --continue-on-collection-errors", "source_commits": [], "add_only": True},
 "engines": [{"name": "vf-explorer", "path": "/verif/vf", "serves_properties": sorted(CHECKS), "kind_free_text": "hand-written explicit-state bounded exhaustive explorer driving the real compiler; reference AVM interpreter, direct recipe evaluator, independent TEAL grammar as oracles"}],
 "checks": checks,
 "not_applicable": na,
 "notes": "All checks: ./run <ID> --tier quick|thorough ; replay with ./run <ID> --replay <path>. Known findings in known_findings.json.",
}
json.dump(m, open(os.path.join(HERE, "MANIFEST.json"), "w"), indent=1)
print("checks:", len(checks), "not_applicable:", len(na))
