#!/usr/bin/env python3
"""Regenerates MANIFEST.json from the table below (kept in one place so it is always valid)."""
import json, os
HERE = os.path.dirname(os.path.abspath(__file__))
CHECKS = {
 "C01": dict(tech="explicit-state BFS over program recipes x configs x inputs; compiled TEAL executed on reference AVM vs direct evaluator",
             text="Bounded exhaustive exploration: every control-flow recipe up to the node bound, every operator on every leaf tuple, every nesting of order-revealing operators with effectful leaves, every read/effect constructor; each compiled under every listed version/mode/option and executed on the reference AVM for every input of the alphabet, compared with a direct evaluator of the recipe.",
             note="trusts the reference AVM interpreter (self-test + golden corpus) and the direct evaluator; values from boundary alphabets; nothing claimed above the size bound", ref="2/C01"),
 "C20": dict(tech="explicit-state BFS over control-flow shapes (main/bare/subroutine), degenerate and long programs x configs; outcome class must be TEAL or a PyTeal error; valid shapes must be accepted",
             text="Bounded exhaustive exploration of every control-flow recipe up to the node bound in three placements (after a store, as first statement, inside a subroutine), hand-listed degenerate shapes, ill-formed programs and long programs, under every listed version/option; any exception other than PyTeal's own error types, and any rejection of a syntactically valid recipe, is a violation.",
             note="validity of a recipe is decided syntactically; runs with the default recursion limit; sizes above the stated bounds are not claimed", ref="2/C20"),
}
NOT_YET = {}
props = [json.loads(l) for l in open(os.path.join(HERE, "properties.jsonl"))]
checks = []
na = []
for p in props:
    pid = p["id"]
    if pid in CHECKS:
        c = CHECKS[pid]
        checks.append({
            "property_id": pid,
            "quick_cmd": "./run %s --tier quick" % pid,
            "thorough_cmd": "./run %s --tier thorough" % pid,
            "evidence_file": "/verif/evidence/%s.json" % pid,
            "replay_cmd_template": "./run %s --replay {path}" % pid,
            "engine": "vf-explorer",
            "level_claimed": {"category": "model_checking", "text": c["text"], "design_ref": c["ref"]},
            "level_note": c["note"],
            "technique": c["tech"],
        })
    else:
        na.append({"property_id": pid, "reason": NOT_YET.get(pid, "check not built yet in this round; bounded exhaustive exploration is applicable (see DESIGN.md section 2) and will be registered when its driver exists")})
m = {
 "version": 1,
 "setup_cmd": "./run selftest",
 "hooks": {"guard": "PYTEAL_VERIF", "enable": "no instrumentation of /repo is needed; checks import pyteal from /repo's working tree (editable install) with PYTEAL_VERIF=1 set", "baseline_off_cmd": "cd /repo && /venv/bin/python -m pytest -ra -q -p no:cacheprovider --timeout=900 --continue-on-collection-errors", "source_commits": [], "add_only": True},
 "engines": [{"name": "vf-explorer", "path": "/verif/vf", "serves_properties": sorted(CHECKS), "kind_free_text": "hand-written explicit-state bounded exhaustive explorer driving the real compiler; reference AVM interpreter, direct recipe evaluator, independent TEAL grammar as oracles"}],
 "checks": checks,
 "not_applicable": na,
 "notes": "All checks: ./run <ID> --tier quick|thorough ; replay with ./run <ID> --replay <path>. Known findings in known_findings.json.",
}
json.dump(m, open(os.path.join(HERE, "MANIFEST.json"), "w"), indent=1)
print("checks:", len(checks), "not_applicable:", len(na))
